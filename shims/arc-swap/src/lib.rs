//! Sequential stand-in for the parts of `arc-swap` that rsass uses
//! (`ArcSwapOption<T>`: `From<Option<Arc<T>>>`, `store`, `load_full`).
//!
//! The real crate's lock-free atomics make the Kani compiler ICE as soon
//! as drop glue for `css::Value` / `ScopeRef` is generated.  No unit under
//! contract calls into this type; it only has to exist so that the rsass
//! crate compiles under Kani.  Listed as an assumed dependency contract in
//! every evidence file.
use std::sync::{Arc, Mutex};

pub struct ArcSwapOption<T>(Mutex<Option<Arc<T>>>);

impl<T> ArcSwapOption<T> {
    pub fn store(&self, v: Option<Arc<T>>) {
        *self.0.lock().unwrap() = v;
    }
    pub fn load_full(&self) -> Option<Arc<T>> {
        self.0.lock().unwrap().clone()
    }
    pub fn load(&self) -> Option<Arc<T>> {
        self.load_full()
    }
}
impl<T> From<Option<Arc<T>>> for ArcSwapOption<T> {
    fn from(v: Option<Arc<T>>) -> Self {
        Self(Mutex::new(v))
    }
}
impl<T> std::fmt::Debug for ArcSwapOption<T> {
    fn fmt(&self, f: &mut std::fmt::Formatter<'_>) -> std::fmt::Result {
        f.write_str("ArcSwapOption(..)")
    }
}
