//! Proof harnesses for rsass/src/value/numeric.rs — unit U-numeric (C11
//! comparison with unit conversion, C12 ordering laws on numbers with units).
//!
//! A symbolic `Unit` is prohibitively expensive for CBMC (the `Unknown`
//! variant owns a `String`), so units are concrete per harness: the LEFT unit
//! is fixed by the harness, the RIGHT unit ranges over all 28 named units on
//! separate paths (`right!`), magnitudes are symbolic where the cost allows.
use super::super::unit::kani_verif::css_ratio;
use super::*;
use std::cmp::Ordering;

/// C12: same unit => comparison is the Number comparison: antisymmetric,
/// reflexive except NaN, `==` symmetric.  All doubles.
fn same_unit_laws(u: Unit) {
    let (x, y): (f64, f64) = (kani::any(), kani::any());
    let a = Numeric::new(x, UnitSet::from(u.clone()));
    let b = Numeric::new(y, UnitSet::from(u));
    assert!(a.partial_cmp(&b) == b.partial_cmp(&a).map(Ordering::reverse), "Numeric cmp antisymmetric (same unit)");
    assert!((a == b) == (b == a), "Numeric == symmetric (same unit)");
    if !x.is_nan() {
        assert!(a == a.clone(), "every number except NaN equals itself");
    }
}
#[kani::proof]
#[kani::unwind(4)]
fn c12_numeric_same_unit_laws_px() {
    same_unit_laws(Unit::Px);
}
#[kani::proof]
#[kani::unwind(4)]
fn c12_numeric_same_unit_laws_unitless() {
    same_unit_laws(Unit::None);
}

/// C11/C12: a unitless operand against one with a unit compares the plain
/// values, consistently in both directions.
#[kani::proof]
#[kani::unwind(4)]
fn c11_numeric_unitless_vs_unit() {
    let (x, y): (f64, f64) = (kani::any(), kani::any());
    let a = Numeric::scalar(x);
    let b = Numeric::new(y, UnitSet::from(Unit::Px));
    let ab = a.partial_cmp(&b);
    let ba = b.partial_cmp(&a);
    assert!(ab == ba.map(Ordering::reverse), "unitless vs unit: antisymmetric");
    assert!((a == b) == (b == a), "unitless vs unit: == symmetric");
    if x < y && !(Number::from(x) == Number::from(y)) {
        assert!(ab == Some(Ordering::Less), "unitless operand takes the other's unit: plain comparison");
    }
}

/// C11: 1<a> against 1<b> for a concrete ordered pair of different units:
/// comparable exactly when CSS fixes a ratio, ordered according to that
/// ratio; `==` symmetric; as_unit / as_unitset scale by the table ratio.
fn cmp_pair(ua: Unit, ub: Unit) {
    let a = Numeric::new(1.0, UnitSet::from(ua.clone()));
    let b = Numeric::new(1.0, UnitSet::from(ub.clone()));
    let got = a.partial_cmp(&b);
    match css_ratio(&ub, &ua) {
        None => assert!(got.is_none(), "units without a fixed ratio are incomparable"),
        Some(ratio) => {
            let want = if ratio > 1.0 + 1e-9 {
                Ordering::Less
            } else if ratio < 1.0 - 1e-9 {
                Ordering::Greater
            } else {
                Ordering::Equal
            };
            assert!(got == Some(want), "comparison follows the CSS ratio");
        }
    }
    assert!((a == b) == (b == a), "== symmetric across units");
    assert!(got == b.partial_cmp(&a).map(Ordering::reverse), "cmp antisymmetric across units");
    let three = Numeric::new(3.0, UnitSet::from(ub.clone()));
    match (css_ratio(&ub, &ua), three.as_unit(ua.clone())) {
        (Some(q), Some(v)) => {
            let v: f64 = v.into();
            assert!((v - 3.0 * q).abs() <= 3.0 * q * 1e-14, "as_unit multiplies by the CSS ratio");
        }
        (None, None) => (),
        _ => assert!(false, "as_unit converts exactly the CSS-fixed pairs"),
    }
    let via_set = three.as_unitset(&UnitSet::from(ua.clone())).map(f64::from);
    let via_unit = three.as_unit(ua).map(f64::from);
    assert!(via_set == via_unit, "as_unitset agrees with as_unit on plain units");
}
macro_rules! pair {
    ($name:ident, $a:ident, $b:ident) => {
        #[kani::proof]
        #[kani::unwind(4)]
        fn $name() {
            cmp_pair(Unit::$a, Unit::$b);
        }
    };
}
pair!(c11_numeric_cmp_in_cm, In, Cm);
pair!(c11_numeric_cmp_px_in, Px, In);
pair!(c11_numeric_cmp_pt_mm, Pt, Mm);
pair!(c11_numeric_cmp_deg_rad, Deg, Rad);
pair!(c11_numeric_cmp_turn_grad, Turn, Grad);
pair!(c11_numeric_cmp_s_ms, S, Ms);
pair!(c11_numeric_cmp_khz_hz, Khz, Hz);
pair!(c11_numeric_cmp_dppx_dpi, Dppx, Dpi);
pair!(c11_numeric_cmp_px_deg, Px, Deg);
pair!(c11_numeric_cmp_px_rem, Px, Rem);
pair!(c11_numeric_cmp_vw_vh, Vw, Vh);
pair!(c11_numeric_cmp_s_hz, S, Hz);
pair!(c11_numeric_cmp_percent_px, Percent, Px);

/// C11: "a unitless operand takes the other operand's unit" also against `%`
/// and `fr` (which share rsass's "no dimension" class with unitless): plain
/// value comparison, no rescaling.
#[kani::proof]
#[kani::unwind(4)]
fn c11_numeric_unitless_vs_percent() {
    let one = Numeric::scalar(1.0);
    let fifty = Numeric::new(50.0, UnitSet::from(Unit::Percent));
    assert!(one.partial_cmp(&fifty) == Some(Ordering::Less), "1 < 50%");
    assert!(fifty.partial_cmp(&one) == Some(Ordering::Greater), "50% > 1");
    let hundred = Numeric::new(100.0, UnitSet::from(Unit::Percent));
    assert!(!(one == hundred) && !(hundred == one), "1 is not 100%");
    let fr = Numeric::new(2.0, UnitSet::from(Unit::Fr));
    assert!(Numeric::scalar(1.0).partial_cmp(&fr) == Some(Ordering::Less), "1 < 2fr");
}
