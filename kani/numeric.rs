//! Proof harnesses for rsass/src/value/numeric.rs — unit U-numeric (C11
//! comparison with unit conversion, C12 ordering laws on numbers with units).
use super::super::unit::kani_verif::{css_ratio, known_unit};
use super::*;
use std::cmp::Ordering;

fn unit_or_none(u: Unit) -> UnitSet {
    UnitSet::from(u)
}

/// C12: same unit => comparison is the Number comparison, antisymmetric and
/// reflexive; `==` symmetric.  All doubles, any known unit (or unitless).
#[kani::proof]
#[kani::unwind(4)]
fn c12_numeric_same_unit_laws() {
    let u = known_unit(kani::any());
    let (x, y): (f64, f64) = (kani::any(), kani::any());
    let a = Numeric::new(x, unit_or_none(u.clone()));
    let b = Numeric::new(y, unit_or_none(u));
    assert!(a.partial_cmp(&b) == b.partial_cmp(&a).map(Ordering::reverse), "Numeric cmp antisymmetric (same unit)");
    assert!((a == b) == (b == a), "Numeric == symmetric (same unit)");
    if !x.is_nan() {
        assert!(a == a.clone(), "every number except NaN equals itself");
    }
}
/// C11/C12: a unitless operand against one with a unit: compares the plain
/// values, in both directions consistently.
#[kani::proof]
#[kani::unwind(4)]
fn c11_numeric_unitless_vs_unit() {
    let u = known_unit(kani::any());
    kani::assume(u != Unit::None);
    let (x, y): (f64, f64) = (kani::any(), kani::any());
    let a = Numeric::scalar(x);
    let b = Numeric::new(y, unit_or_none(u));
    let ab = a.partial_cmp(&b);
    let ba = b.partial_cmp(&a);
    assert!(ab == ba.map(Ordering::reverse), "unitless vs unit: antisymmetric");
    assert!((a == b) == (b == a), "unitless vs unit: == symmetric");
    if x < y && !(Number::from(x) == Number::from(y)) {
        assert!(ab == Some(Ordering::Less));
    }
}
/// C11: two different known units compare only when CSS fixes a ratio, and
/// then according to that ratio (probe values chosen so that rounding of
/// the ratio cannot flip the answer).
#[kani::proof]
#[kani::unwind(4)]
fn c11_numeric_cmp_converts_only_fixed_ratios() {
    let (ua, ub) = (known_unit(kani::any()), known_unit(kani::any()));
    kani::assume(ua != ub && ua != Unit::None && ub != Unit::None);
    let a = Numeric::new(1.0, unit_or_none(ua.clone()));
    let b = Numeric::new(1.0, unit_or_none(ub.clone()));
    let got = a.partial_cmp(&b);
    match css_ratio(&ub, &ua) {
        None => assert!(got.is_none(), "units without a fixed ratio are incomparable"),
        Some(r) => {
            // 1ua vs 1ub where 1ub = r ua
            let want = if r > 1.0 + 1e-9 {
                Ordering::Less
            } else if r < 1.0 - 1e-9 {
                Ordering::Greater
            } else {
                Ordering::Equal
            };
            assert!(got == Some(want), "comparison follows the CSS ratio");
        }
    }
    assert!((a == b) == (b == a), "== symmetric across units");
}
/// C11: as_unit / as_unitset scale by exactly the table ratio.
#[kani::proof]
#[kani::unwind(4)]
fn c11_numeric_as_unit() {
    let (ua, ub) = (known_unit(kani::any()), known_unit(kani::any()));
    kani::assume(ua != ub && ua != Unit::None && ub != Unit::None);
    let a = Numeric::new(3.0, unit_or_none(ua.clone()));
    match (css_ratio(&ua, &ub), a.as_unit(ub.clone())) {
        (Some(r), Some(v)) => {
            let v: f64 = v.into();
            assert!((v - 3.0 * r).abs() <= 3.0 * r * 1e-14, "as_unit multiplies by the CSS ratio");
        }
        (None, None) => (),
        _ => assert!(false, "as_unit converts exactly the CSS-fixed pairs"),
    }
    let via_set = a.as_unitset(&unit_or_none(ub.clone())).map(f64::from);
    let via_unit = a.as_unit(ub).map(f64::from);
    assert!(via_set == via_unit, "as_unitset agrees with as_unit on plain units");
}
