//! Contracts and proof harnesses for rsass/src/value/colors/hwba.rs (C31).
use super::*;

pub(crate) fn any_hwba_raw() -> Hwba {
    Hwba { hue: kani::any(), w: kani::any(), b: kani::any(), alpha: kani::any() }
}
pub(crate) fn valid(c: &Hwba) -> bool {
    0.0 <= c.hue
        && c.hue < 360.0
        && 0.0 <= c.w
        && 0.0 <= c.b
        && c.w <= 1.0
        && c.b <= 1.0
        && c.w + c.b <= 1.0000000000000002
        && 0.0 <= c.alpha
        && c.alpha <= 1.0
}
pub(crate) fn any_hwba_valid() -> Hwba {
    let c = any_hwba_raw();
    kani::assume(valid(&c));
    c
}

/// C31: for non-negative finite w, b: whiteness and blackness are reported in
/// [0,1] with w+b <= 1 (normalised), alpha in [0,1].
#[kani::proof]
#[kani::stub(crate::value::colors::hsla::deg_mod, crate::value::colors::hsla::kani_verif::deg_mod_by_contract)]
fn c31_hwba_new_in_range() {
    let (w, b, a): (f64, f64, f64) = (kani::any(), kani::any(), kani::any());
    kani::assume(0.0 <= w && w <= 1e300 && 0.0 <= b && b <= 1e300 && !a.is_nan());
    let c = Hwba::new(kani::any(), w, b, a);
    assert!(0.0 <= c.whiteness() && c.whiteness() <= 1.0, "whiteness in [0,1]");
    assert!(0.0 <= c.blackness() && c.blackness() <= 1.0, "blackness in [0,1]");
    assert!(c.whiteness() + c.blackness() <= 1.0 + 1e-15, "w+b <= 1");
    assert!(0.0 <= c.alpha() && c.alpha() <= 1.0, "alpha in [0,1]");
    // in-range input is stored unchanged
    assert!(!(w + b <= 1.0) || (c.whiteness() == w && c.blackness() == b));
}
#[kani::proof]
#[kani::stub(crate::value::colors::hsla::deg_mod, crate::value::colors::hsla::kani_verif::deg_mod_by_contract)]
fn c31_hwba_set_alpha_in_range() {
    let mut c = any_hwba_valid();
    let a: f64 = kani::any();
    kani::assume(!a.is_nan());
    c.set_alpha(a);
    assert!(0.0 <= c.alpha() && c.alpha() <= 1.0);
}
