//! K-snippet unit U-formalargs (C18): the argument binding of user-defined
//! functions and mixins, `FormalArgs::eval`.  The function itself creates a
//! sub-scope (Mutex<BTreeMap>, out of CBMC's reach) and evaluates defaults
//! through the evaluator (which Kani cannot compile), so its body is cut out
//! of /repo's current source on every run (tools/extract.py) with these
//! listed substitutions: the sub-scope is a harness-provided binder that
//! RECORDS every `define(name, value)` in order; the evaluation of a default
//! value is a call to the binder (records that, and when, it ran); `self`
//! is the real `FormalArgs` (its private fields are visible here).
//! `CallArgs::{take_positional, only_named, check_no_named, len}` and
//! `OrderMap::remove` below are the real ones.  `ArgsError` is a local
//! stand-in with the constructors the range uses (the real one can hold a
//! `Box<crate::Error>`, whose drop glue is out of reach): listed.
use super::*;
use crate::css;
use std::cell::RefCell;

mod binding {
    use super::Binder;
    use crate::css::CallArgs;
    use crate::sass::{FormalArgs, Name};
    #[derive(Debug)]
    pub(super) enum ArgsError {
        TooMany(usize, usize),
        TooManyPos(usize, usize),
        Missing(Name),
        Unexpected(Name),
    }
    impl From<crate::sass::ArgsError> for ArgsError {
        fn from(e: crate::sass::ArgsError) -> Self {
            match e {
                crate::sass::ArgsError::Unexpected(n) => Self::Unexpected(n),
                crate::sass::ArgsError::Missing(n) => Self::Missing(n),
                crate::sass::ArgsError::TooMany(a, b) => Self::TooMany(a, b),
                crate::sass::ArgsError::TooManyPos(a, b) => Self::TooManyPos(a, b),
                crate::sass::ArgsError::Eval(e) => {
                    std::mem::forget(e);
                    unreachable!()
                }
            }
        }
    }
    impl From<()> for ArgsError {
        fn from(_: ()) -> Self {
            unreachable!()
        }
    }
    type Result<T> = std::result::Result<T, ArgsError>;
//@range file=rsass/src/sass/formal_args.rs impl="impl FormalArgs" fn=eval from="let mut args = args;"
//@  header: pub(super) fn snippet_bind_args<'a>(this: &FormalArgs, scope: &'a Binder, args: CallArgs) -> Result<&'a Binder>
//@  subst: let argscope = ScopeRef::sub(scope); => let argscope = scope;
//@  subst: default.do_evaluate(argscope.clone(), true)? => argscope.eval_default(default)?
//@  subst: self => this
//@end
}
use binding::{ArgsError as BindError, snippet_bind_args};

/// What happened, in order: Bound(first byte of the name, tag of the value)
/// or DefaultEvaluated.
#[derive(Clone, Copy, PartialEq, Eq, Debug)]
pub(crate) enum Ev {
    Bound(u8, u8),
    DefaultEvaluated,
}
pub(crate) struct Binder {
    log: RefCell<Vec<Ev>>,
}
fn tag(v: &css::Value) -> u8 {
    match v {
        css::Value::True => 1,
        css::Value::False => 2,
        css::Value::Null => 3,
        css::Value::ArgList(a) => 10 + a.positional.len() as u8,
        _ => 99,
    }
}
impl Binder {
    fn new() -> Self {
        Self { log: RefCell::new(Vec::new()) }
    }
    fn define(&self, name: Name, val: css::Value) -> std::result::Result<(), ()> {
        self.log.borrow_mut().push(Ev::Bound(name.as_ref().as_bytes()[0], tag(&val)));
        Ok(())
    }
    /// every default in the harnesses is `null`
    fn eval_default(&self, _default: &Value) -> std::result::Result<css::Value, ()> {
        self.log.borrow_mut().push(Ev::DefaultEvaluated);
        Ok(css::Value::Null)
    }
    fn events(&self) -> Vec<Ev> {
        self.log.borrow().clone()
    }
}

fn n(s: &'static str) -> Name {
    Name::from_static(s)
}
fn call(positional: Vec<css::Value>, named: Vec<(&'static str, css::Value)>) -> css::CallArgs {
    let mut a = css::CallArgs::from_list(positional);
    for (k, v) in named {
        a.named.insert(n(k), v);
    }
    a
}

/// C18: positional arguments bind by position, then named arguments by
/// name, then defaults, left to right; a default is evaluated only for a
/// parameter that got no argument, after the parameters before it are bound.
#[kani::proof]
#[kani::unwind(6)]
fn c18_positional_then_default() {
    // @function f($a, $b: null) called as f(true)
    let fa = FormalArgs::new(vec![(n("a"), None), (n("b"), Some(Value::Null))]);
    let b = Binder::new();
    let r = snippet_bind_args(&fa, &b, call(vec![css::Value::True], vec![]));
    assert!(r.is_ok(), "one positional argument and one default: binds");
    let ev = b.events();
    assert!(ev.len() == 3 && ev[0] == Ev::Bound(b'a', 1) && ev[1] == Ev::DefaultEvaluated && ev[2] == Ev::Bound(b'b', 3),
        "$a by position, then $b's default evaluated (after $a is bound) and bound");
}
#[kani::proof]
#[kani::unwind(6)]
fn c18_named_beats_default() {
    // f(true, $b: false): the default of $b is not evaluated
    let fa = FormalArgs::new(vec![(n("a"), None), (n("b"), Some(Value::Null))]);
    let b = Binder::new();
    let r = snippet_bind_args(&fa, &b, call(vec![css::Value::True], vec![("b", css::Value::False)]));
    assert!(r.is_ok());
    let ev = b.events();
    assert!(ev.len() == 2 && ev[0] == Ev::Bound(b'a', 1) && ev[1] == Ev::Bound(b'b', 2), "$b by name; its default is not evaluated");
}
#[kani::proof]
#[kani::unwind(6)]
fn c18_named_in_any_order() {
    // f($b: false, $a: true)
    let fa = FormalArgs::new(vec![(n("a"), None), (n("b"), None)]);
    let b = Binder::new();
    let r = snippet_bind_args(&fa, &b, call(vec![], vec![("b", css::Value::False), ("a", css::Value::True)]));
    assert!(r.is_ok());
    let ev = b.events();
    assert!(ev.len() == 2 && ev[0] == Ev::Bound(b'a', 1) && ev[1] == Ev::Bound(b'b', 2), "named arguments bind by name, parameters in declaration order");
}
/// C18: too many, unknown, missing arguments are errors.
#[kani::proof]
#[kani::unwind(6)]
fn c18_missing_argument_is_an_error() {
    let fa = FormalArgs::new(vec![(n("a"), None), (n("b"), None)]);
    let b = Binder::new();
    let r = snippet_bind_args(&fa, &b, call(vec![css::Value::True], vec![]));
    assert!(matches!(r, Err(BindError::Missing(ref m)) if m.as_ref() == "b"), "missing $b is an error");
}
#[kani::proof]
#[kani::unwind(6)]
fn c18_too_many_arguments_is_an_error() {
    let fa = FormalArgs::new(vec![(n("a"), None)]);
    let b = Binder::new();
    let r = snippet_bind_args(&fa, &b, call(vec![css::Value::True, css::Value::False], vec![]));
    assert!(matches!(r, Err(BindError::TooMany(1, 2))), "two arguments for one parameter is an error");
    assert!(b.events().is_empty(), "nothing is bound");
}
#[kani::proof]
#[kani::unwind(6)]
fn c18_unknown_named_argument_is_an_error() {
    let fa = FormalArgs::new(vec![(n("a"), Some(Value::Null))]);
    let b = Binder::new();
    let r = snippet_bind_args(&fa, &b, call(vec![], vec![("c", css::Value::True)]));
    assert!(matches!(r, Err(BindError::Unexpected(ref m)) if m.as_ref() == "c"), "an argument named $c is an error when there is no such parameter");
}
/// C18: extras go into the rest parameter.
#[kani::proof]
#[kani::unwind(6)]
fn c18_extras_go_to_rest_parameter() {
    // @function f($a, $rest...) called as f(true, false, null)
    let fa = FormalArgs::new_va(vec![(n("a"), None), (n("rest"), None)]);
    let b = Binder::new();
    let r = snippet_bind_args(&fa, &b, call(vec![css::Value::True, css::Value::False, css::Value::Null], vec![]));
    assert!(r.is_ok(), "extra positional arguments are not an error with a rest parameter");
    let ev = b.events();
    assert!(ev.len() == 2 && ev[0] == Ev::Bound(b'a', 1) && ev[1] == Ev::Bound(b'r', 12), "$a by position, the two extras in $rest");
}
/// C18: `-` and `_` are equivalent in names.
#[kani::proof]
#[kani::unwind(8)]
fn c18_name_dash_underscore_equivalent() {
    assert!(Name::from("a-b") == Name::from("a_b"), "a-b and a_b are the same name");
    assert!(Name::from("a-b") == Name::from_static("a_b"));
    assert!(Name::from("a-b") != Name::from("a.b"));
}

#[kani::proof]
#[kani::unwind(6)]
fn cover_formalargs() {
    let fa = FormalArgs::new(vec![(n("a"), None)]);
    kani::cover!(!fa.is_varargs());
}
