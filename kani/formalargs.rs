//! K-snippet unit U-formalargs (C18): the argument binding of user-defined
//! functions and mixins, `FormalArgs::eval`.  The function itself creates a
//! sub-scope (Mutex<BTreeMap>, out of CBMC's reach) and evaluates defaults
//! through the evaluator (which Kani cannot compile), so its body is cut out
//! of /repo's current source on every run (tools/extract.py) with these
//! listed substitutions: the sub-scope is a harness-provided binder that
//! RECORDS every `define(name, value)` in order; the evaluation of a default
//! value is a call to the binder (records that, and when, it ran); the two
//! fields of `self` are parameters (`self.0` -> `formals`, `self.1` -> `rest`,
//! with the default-value type instantiated at u8: sass::Value's drop glue
//! is out of CBMC's reach).
//! `css::CallArgs` is instantiated at a cheap value type: the BODIES of
//! `take_positional`, `only_named`, `check_no_named` and `len` are extracted
//! from css/call_args.rs as well; `OrderMap::{remove, insert, keys, len}`
//! are the real generic ones.  `ArgsError` is a local stand-in with the
//! constructors the ranges use (the real one can hold a `Box<crate::Error>`,
//! whose drop glue is out of reach): listed.
use super::*;
use crate::ordermap::OrderMap;
use std::cell::RefCell;

/// The argument VALUE type is instantiated at a cheap stand-in (a Vec or
/// OrderMap of css::Value costs CBMC > 8 GB per harness): a plain value is
/// a tag, an argument list converted to a value (`args.into()`, what the
/// rest parameter receives) remembers how many positional arguments it held.
#[derive(Clone, Copy, PartialEq, Eq, Debug)]
pub(crate) enum V {
    Plain(u8),
    ArgList(u8),
}

mod binding {
    use super::{Binder, V};
    use crate::ordermap::OrderMap;
    use crate::sass::Name;
    #[derive(Debug)]
    pub(crate) enum ArgsError {
        TooMany(usize, usize),
        TooManyPos(usize, usize),
        Missing(Name),
        Unexpected(Name),
        Duplicate,
    }
    impl From<()> for ArgsError {
        fn from(_: ()) -> Self {
            unreachable!()
        }
    }
    type Result<T> = std::result::Result<T, ArgsError>;

    /// `css::CallArgs` at the value type `V`: same fields; the method BODIES
    /// below are extracted from rsass/src/css/call_args.rs on every run.
    pub(crate) struct CallArgs {
        pub(crate) positional: Vec<V>,
        pub(crate) named: OrderMap<Name, V>,
        #[allow(dead_code)]
        pub(crate) trailing_comma: bool,
    }
    impl From<CallArgs> for V {
        fn from(a: CallArgs) -> V {
            V::ArgList(a.positional.len() as u8)
        }
    }
    impl CallArgs {
//@range file=rsass/src/css/call_args.rs impl="impl CallArgs" fn=take_positional
//@  header: pub(crate) fn take_positional(&mut self, n: usize) -> Vec<V>
//@end
//@range file=rsass/src/css/call_args.rs impl="impl CallArgs" fn=only_named
//@  header: pub(crate) fn only_named(&mut self, name: &Name) -> Option<V>
//@end
//@range file=rsass/src/css/call_args.rs impl="impl CallArgs" fn=check_no_named
//@  header: pub(crate) fn check_no_named(&self) -> Result<()>
//@end
//@range file=rsass/src/css/call_args.rs impl="impl CallArgs" fn=len
//@  header: pub(crate) fn len(&self) -> usize
//@end
    }

    /// stands for `crate::Invalid` in the splat range below (the only
    /// constructor it uses)
    pub(crate) enum Invalid {
        DuplicateArgument,
    }
    impl From<Invalid> for ArgsError {
        fn from(_: Invalid) -> Self {
            ArgsError::Duplicate
        }
    }
// `sass::CallArgs::evaluate`: what happens to a forwarded argument list
// (`$args...` evaluating to an arglist) — the ArgList arm, extracted.
//@range file=rsass/src/sass/call_args.rs impl="impl CallArgs" fn=evaluate after="css::Value::ArgList(args) => {" until="\n                    }\n                    css::Value::Map(map) => {"
//@  header: pub(super) fn snippet_splat_arglist(result: &mut CallArgs, args: CallArgs) -> Result<()>
//@  tail: Ok(())
//@end

//@range file=rsass/src/sass/formal_args.rs impl="impl FormalArgs" fn=eval from="let mut args = args;"
//@  header: pub(super) fn snippet_bind_args<'a>(formals: &[(Name, Option<u8>)], rest: &Option<Name>, scope: &'a Binder, args: CallArgs) -> Result<&'a Binder>
//@  subst: let argscope = ScopeRef::sub(scope); => let argscope = scope;
//@  subst: default.do_evaluate(argscope.clone(), true) => argscope.eval_default(default)
//@  subst: self.is_varargs() => rest.is_some()
//@  subst: self.0 => formals
//@  subst: &self.1 => rest
//@end
}
use binding::{ArgsError as BindError, CallArgs as Args, snippet_bind_args, snippet_splat_arglist};

/// What happened, in order: Bound(first byte of the name, value) or
/// DefaultEvaluated.
#[derive(Clone, Copy, PartialEq, Eq, Debug)]
pub(crate) enum Ev {
    Bound(u8, V),
    DefaultEvaluated,
}
pub(crate) struct Binder {
    log: RefCell<Vec<Ev>>,
}
impl Binder {
    fn new() -> Self {
        Self { log: RefCell::new(Vec::new()) }
    }
    fn define(&self, name: Name, val: V) -> std::result::Result<(), ()> {
        self.log.borrow_mut().push(Ev::Bound(name.as_ref().as_bytes()[0], val));
        Ok(())
    }
    /// every default evaluates to Plain(0)
    fn eval_default(&self, _default: &u8) -> std::result::Result<V, ()> {
        self.log.borrow_mut().push(Ev::DefaultEvaluated);
        Ok(V::Plain(0))
    }
    fn events(&self) -> Vec<Ev> {
        self.log.borrow().clone()
    }
}

fn n(s: &'static str) -> Name {
    Name::from_static(s)
}
fn call(positional: Vec<V>, named: Vec<(&'static str, V)>) -> Args {
    let mut m = OrderMap::new();
    for (k, v) in named {
        m.insert(n(k), v);
    }
    Args { positional, named: m, trailing_comma: false }
}
const T: V = V::Plain(1);
const F: V = V::Plain(2);
const N0: V = V::Plain(0);

/// C18: positional arguments bind by position, then named arguments by
/// name, then defaults, left to right; a default is evaluated only for a
/// parameter that got no argument, after the parameters before it are bound.
#[kani::proof]
#[kani::unwind(6)]
fn c18_positional_then_default() {
    // @function f($a, $b: null) called as f(true)
    let (fa, rest): (Vec<(Name, Option<u8>)>, Option<Name>) = (vec![(n("a"), None), (n("b"), Some(0))], None);
    let b = Binder::new();
    let r = snippet_bind_args(&fa, &rest, &b, call(vec![T], vec![]));
    assert!(r.is_ok(), "one positional argument and one default: binds");
    let ev = b.events();
    assert!(ev.len() == 3 && ev[0] == Ev::Bound(b'a', T) && ev[1] == Ev::DefaultEvaluated && ev[2] == Ev::Bound(b'b', N0),
        "$a by position, then $b's default evaluated (after $a is bound) and bound");
}
#[kani::proof]
#[kani::unwind(6)]
fn c18_named_beats_default() {
    // f(true, $b: false): the default of $b is not evaluated
    let (fa, rest): (Vec<(Name, Option<u8>)>, Option<Name>) = (vec![(n("a"), None), (n("b"), Some(0))], None);
    let b = Binder::new();
    let r = snippet_bind_args(&fa, &rest, &b, call(vec![T], vec![("b", F)]));
    assert!(r.is_ok());
    let ev = b.events();
    assert!(ev.len() == 2 && ev[0] == Ev::Bound(b'a', T) && ev[1] == Ev::Bound(b'b', F), "$b by name; its default is not evaluated");
}
#[kani::proof]
#[kani::unwind(6)]
fn c18_named_in_any_order() {
    // f($b: false, $a: true)
    let (fa, rest): (Vec<(Name, Option<u8>)>, Option<Name>) = (vec![(n("a"), None), (n("b"), None)], None);
    let b = Binder::new();
    let r = snippet_bind_args(&fa, &rest, &b, call(vec![], vec![("b", F), ("a", T)]));
    assert!(r.is_ok());
    let ev = b.events();
    assert!(ev.len() == 2 && ev[0] == Ev::Bound(b'a', T) && ev[1] == Ev::Bound(b'b', F), "named arguments bind by name, parameters in declaration order");
}
/// C18: too many, unknown, missing arguments are errors.
#[kani::proof]
#[kani::unwind(6)]
fn c18_missing_argument_is_an_error() {
    let (fa, rest): (Vec<(Name, Option<u8>)>, Option<Name>) = (vec![(n("a"), None), (n("b"), None)], None);
    let b = Binder::new();
    let r = snippet_bind_args(&fa, &rest, &b, call(vec![T], vec![]));
    assert!(matches!(r, Err(BindError::Missing(ref m)) if m.as_ref() == "b"), "missing $b is an error");
}
#[kani::proof]
#[kani::unwind(6)]
fn c18_too_many_arguments_is_an_error() {
    let (fa, rest): (Vec<(Name, Option<u8>)>, Option<Name>) = (vec![(n("a"), None)], None);
    let b = Binder::new();
    let r = snippet_bind_args(&fa, &rest, &b, call(vec![T, F], vec![]));
    assert!(matches!(r, Err(BindError::TooMany(1, 2))), "two arguments for one parameter is an error");
    assert!(b.events().is_empty(), "nothing is bound");
}
#[kani::proof]
#[kani::unwind(6)]
fn c18_unknown_named_argument_is_an_error() {
    let (fa, rest): (Vec<(Name, Option<u8>)>, Option<Name>) = (vec![(n("a"), Some(0))], None);
    let b = Binder::new();
    let r = snippet_bind_args(&fa, &rest, &b, call(vec![], vec![("c", T)]));
    assert!(matches!(r, Err(BindError::Unexpected(ref m)) if m.as_ref() == "c"), "an argument named $c is an error when there is no such parameter");
}
/// C18: extras go into the rest parameter.
#[kani::proof]
#[kani::unwind(6)]
fn c18_extras_go_to_rest_parameter() {
    // @function f($a, $rest...) called as f(true, false, null)
    // FormalArgs::new_va splits the last parameter off as the rest parameter
    let (fa, rest): (Vec<(Name, Option<u8>)>, Option<Name>) = (vec![(n("a"), None)], Some(n("rest")));
    let b = Binder::new();
    let r = snippet_bind_args(&fa, &rest, &b, call(vec![T, F, N0], vec![]));
    assert!(r.is_ok(), "extra positional arguments are not an error with a rest parameter");
    let ev = b.events();
    assert!(ev.len() == 2 && ev[0] == Ev::Bound(b'a', T) && ev[1] == Ev::Bound(b'r', V::ArgList(2)), "$a by position, the two extras in $rest");
}
/// C18: a keyword that names the rest parameter does not swallow the other
/// keywords: with `f(true, $rest: false, $other: 0)` on `f($a, $rest...)`
/// the rest parameter receives the argument list (whose keywords
/// meta.keywords reports), not the plain value of `$rest`.
#[kani::proof]
#[kani::unwind(6)]
fn c18_rest_keyword_with_other_keywords() {
    let (fa, rest): (Vec<(Name, Option<u8>)>, Option<Name>) = (vec![(n("a"), None)], Some(n("rest")));
    let b = Binder::new();
    let r = snippet_bind_args(&fa, &rest, &b, call(vec![T], vec![("rest", F), ("other", N0)]));
    assert!(r.is_ok());
    let ev = b.events();
    assert!(ev.len() == 2 && ev[0] == Ev::Bound(b'a', T), "$a by position");
    assert!(matches!(ev[1], Ev::Bound(b'r', V::ArgList(_))), "the rest parameter gets the argument list, no keyword is dropped");
}
/// C18: duplicated arguments are an error — also when the duplicate comes
/// from a forwarded argument list (`inner(1, $b: x, $args...)` where $args
/// carries keyword b); otherwise the forwarded positionals and keywords are
/// appended in order.
#[kani::proof]
#[kani::unwind(6)]
fn c18_forwarded_arglist_duplicate_keyword_is_an_error() {
    let mut result = call(vec![T], vec![("b", T)]);
    let r = snippet_splat_arglist(&mut result, call(vec![F], vec![("b", F)]));
    assert!(matches!(r, Err(BindError::Duplicate)), "keyword b passed explicitly and through the forwarded arglist: error");
}
#[kani::proof]
#[kani::unwind(6)]
fn c18_forwarded_arglist_is_appended() {
    let mut result = call(vec![T], vec![]);
    let r = snippet_splat_arglist(&mut result, call(vec![F], vec![("b", N0)]));
    assert!(r.is_ok(), "distinct keywords are not an error");
    assert!(result.positional.len() == 2 && result.positional[0] == T && result.positional[1] == F, "forwarded positionals follow the explicit ones");
    assert!(result.named.len() == 1 && result.named.get(&n("b")) == Some(&N0), "forwarded keywords are kept");
}
/// C18: `-` and `_` are equivalent in names.
#[kani::proof]
#[kani::unwind(8)]
fn c18_name_dash_underscore_equivalent() {
    assert!(Name::from("a-b") == Name::from("a_b"), "a-b and a_b are the same name");
    assert!(Name::from("a-b") == Name::from_static("a_b"));
    assert!(Name::from("a-b") != Name::from("a.b"));
}

#[kani::proof]
#[kani::unwind(6)]
fn cover_formalargs() {
    let k: u8 = kani::any();
    let a = call(vec![V::Plain(k)], vec![]);
    kani::cover!(a.len() == 1 && k == 7);
}
