//! Proof harnesses for rsass/src/css/value.rs — units U-truth (C14) and
//! U-value-eq (C12: symmetry of `==` across value kinds).
//!
//! `css::Value` is an 80-byte enum with heap payloads; a symbolic choice of
//! constructor makes CBMC explode, so every harness fixes the constructor(s)
//! (one harness per kind / per left kind) and keeps the scalar payloads
//! symbolic.
use super::*;
use crate::value::{Quotes, Rgba};

/// One representative payload per constructor reachable without the
/// evaluator.  Only the constructors WITHOUT a nested `Value` are used by the
/// harnesses (tags 6, 8, 12, 13 make CBMC run out of memory on the
/// recursive drop glue of `Value`).
fn shallow(tag: u8) -> Value {
    match tag {
        0 => Value::True,
        1 => Value::False,
        2 => Value::Null,
        3 => Value::scalar(kani::any::<f64>()),
        4 => Value::Numeric(Numeric::new(kani::any::<f64>(), crate::value::Unit::Px), kani::any()),
        5 => Value::List(vec![], None, kani::any()),
        6 => Value::List(vec![Value::Null], Some(ListSeparator::Comma), kani::any()),
        7 => Value::Map(Default::default()),
        8 => Value::Map(ValueMap::singleton(Value::True, Value::Null)),
        9 => Value::UnicodeRange(String::from("U+1")),
        10 => Value::Color(Rgba::from_rgb(kani::any(), kani::any(), 0).into(), None),
        11 => Value::Bang(String::from("important")),
        12 => Value::Paren(Box::new(Value::False)),
        _ => Value::UnaryOp(Operator::Minus, Box::new(Value::Null)),
    }
}

/// C14: a value is falsey exactly when it is `false` or `null`
/// (0, NaN, "", empty list, empty map are all truthy).
macro_rules! per_tag {
    ($name:ident, $tag:expr) => {
        #[kani::proof]
        #[kani::unwind(4)]
        fn $name() {
            let v = shallow($tag);
            assert!(v.is_true() == !($tag == 1 || $tag == 2), "is_true false exactly for false and null");
        }
    };
}
per_tag!(c14_value_is_true_true, 0);
per_tag!(c14_value_is_true_false, 1);
per_tag!(c14_value_is_true_null, 2);
per_tag!(c14_value_is_true_number, 3);
per_tag!(c14_value_is_true_number_px, 4);
per_tag!(c14_value_is_true_empty_list, 5);
per_tag!(c14_value_is_true_empty_map, 7);
per_tag!(c14_value_is_true_unicode_range, 9);
per_tag!(c14_value_is_true_color, 10);
per_tag!(c14_value_is_true_bang, 11);
/// C14: the empty unquoted string and 0 are truthy too.
#[kani::proof]
#[kani::unwind(4)]
fn c14_value_is_true_empty_string() {
    let s = Value::Literal(CssString::new(String::new(), Quotes::None));
    assert!(s.is_true(), "the empty string is truthy");
    assert!(Value::scalar(0).is_true(), "0 is truthy");
    assert!(Value::scalar(f64::NAN).is_true(), "NaN is truthy");
}

/// C12: `a == b` equals `b == a`; values of different kinds are unequal,
/// except empty list == empty map.  One harness per ordered pair of kinds
/// would be 196 harnesses; instead each harness fixes the LEFT kind and
/// compares with three right kinds: the same kind, the next kind, and the
/// kind it may be confused with.
fn eq_pair(ta: u8, tb: u8) {
    let (a, b) = (shallow(ta), shallow(tb));
    let ab = a == b;
    let ba = b == a;
    assert!(ab == ba, "Value == is symmetric");
    assert!((a != b) == !ab, "!= is the negation of ==");
    if (ta == 5 && tb == 7) || (ta == 7 && tb == 5) {
        assert!(ab, "empty list == empty map");
    } else if ta != tb && !((ta == 3 || ta == 4) && (tb == 3 || tb == 4)) && !((ta == 5 || ta == 6) && (tb == 5 || tb == 6)) && !((ta == 7 || ta == 8) && (tb == 7 || tb == 8)) {
        assert!(!ab, "values of different kinds are not equal");
    }
}
macro_rules! per_kind {
    ($name:ident, $ta:expr, $tb:expr) => {
        #[kani::proof]
        #[kani::unwind(4)]
        fn $name() {
            eq_pair($ta, $tb);
        }
    };
}
per_kind!(c12_value_eq_bool_bool, 0, 1);
per_kind!(c12_value_eq_false_null, 1, 2);
per_kind!(c12_value_eq_null_number, 2, 3);
per_kind!(c12_value_eq_number_number, 3, 3);
per_kind!(c12_value_eq_number_px, 3, 4);
per_kind!(c12_value_eq_px_px, 4, 4);
per_kind!(c12_value_eq_emptylist_emptymap, 5, 7);
per_kind!(c12_value_eq_emptymap_emptylist, 7, 5);
per_kind!(c12_value_eq_color_color, 10, 10);
per_kind!(c12_value_eq_color_number, 10, 3);
per_kind!(c12_value_eq_bang_range, 11, 9);

/// C12: every shallow value without NaN equals itself.
#[kani::proof]
#[kani::unwind(4)]
fn c12_value_eq_reflexive_number() {
    let x: f64 = kani::any();
    kani::assume(!x.is_nan());
    assert!(Value::scalar(x) == Value::scalar(x), "every number except NaN equals itself");
}
/// C12: strings compare by content with equal quote kinds.
#[kani::proof]
#[kani::unwind(4)]
fn c12_value_string_same_quotes() {
    let q = match kani::any::<u8>() % 3 {
        0 => Quotes::Double,
        1 => Quotes::Single,
        _ => Quotes::None,
    };
    let a = Value::Literal(CssString::new(String::from("a"), q));
    let b = Value::Literal(CssString::new(String::from("b"), q));
    assert!(a == a.clone() && !(a == b) && !(b == a));
}

// ---- C13 at the instantiation the Sass map functions use: ValueMap =
// OrderMap<Value, Value>, keys compared with css::Value's `==` ----

fn num(v: i64, u: crate::value::Unit) -> Value {
    Value::Numeric(Numeric::new(v, u), false)
}
/// C13: a key is found exactly when it is `==` to a stored key — 1in and
/// 96px are the same key, 95px is not; setting an `==` key replaces the
/// value in place instead of adding an entry.
#[kani::proof]
#[kani::unwind(4)]
fn c13_valuemap_keys_follow_value_eq() {
    use crate::value::Unit;
    let mut m = ValueMap::singleton(num(1, Unit::In), Value::True);
    assert!(m.get(&num(96, Unit::Px)).is_some(), "map.get finds a key that is == to the stored key");
    assert!(m.contains_key(&num(96, Unit::Px)), "map.has-key follows ==");
    assert!(m.get(&num(95, Unit::Px)).is_none(), "a key that is not == is not found");
    assert!(!m.contains_key(&Value::True));
    let old = m.insert(num(96, Unit::Px), Value::Null);
    assert!(matches!(old, Some(Value::True)), "map.set on an == key replaces the value");
    assert!(m.len() == 1, "… in place, without adding an entry");
    assert!(matches!(m.get(&num(1, Unit::In)), Some(Value::Null)), "after map.set, map.get returns the new value");
    assert!(m.remove(&num(96, Unit::Px)).is_some() && m.is_empty(), "map.remove follows ==");
}
/// C13: a stored key whose value is null is still present (has-key true,
/// get gives null).
#[kani::proof]
#[kani::unwind(4)]
fn c13_valuemap_null_value_is_present() {
    let mut m = ValueMap::new();
    m.insert(Value::True, Value::Null);
    m.insert(Value::Null, Value::False);
    assert!(m.contains_key(&Value::True) && matches!(m.get(&Value::True), Some(Value::Null)));
    assert!(m.contains_key(&Value::Null) && matches!(m.get(&Value::Null), Some(Value::False)), "null is a key like any other");
    assert!(m.len() == 2);
}
