//! Proof harnesses for rsass/src/css/value.rs — units U-truth (C14) and
//! U-value-eq (C12: symmetry of `==` across value kinds).
use super::*;
use crate::value::{Quotes, Rgba};

/// One representative payload per constructor reachable without the
/// evaluator (payload depth <= 1).  tag < 14.
fn shallow(tag: u8) -> Value {
    match tag {
        0 => Value::True,
        1 => Value::False,
        2 => Value::Null,
        3 => Value::scalar(kani::any::<f64>()),
        4 => Value::Numeric(Numeric::new(kani::any::<f64>(), crate::value::Unit::Px), kani::any()),
        5 => Value::List(vec![], None, kani::any()),
        6 => Value::List(vec![Value::Null], Some(ListSeparator::Comma), kani::any()),
        7 => Value::Map(Default::default()),
        8 => Value::Map(ValueMap::singleton(Value::True, Value::Null)),
        9 => Value::UnicodeRange(String::from("U+1")),
        10 => Value::Color(Rgba::from_rgb(kani::any(), kani::any(), 0).into(), None),
        11 => Value::Bang(String::from("important")),
        12 => Value::Paren(Box::new(Value::False)),
        _ => Value::UnaryOp(Operator::Minus, Box::new(Value::Null)),
    }
}

/// C14: a value is falsey exactly when it is `false` or `null`
/// (0, NaN, "", empty list, empty map are all truthy).
#[kani::proof]
#[kani::unwind(4)]
fn c14_value_is_true() {
    let tag: u8 = kani::any();
    kani::assume(tag < 14);
    let v = shallow(tag);
    assert!(v.is_true() == !(tag == 1 || tag == 2), "is_true false exactly for false and null");
}

/// C12: `a == b` equals `b == a` across all pairs of shallow values;
/// values of different kinds are unequal, except empty list == empty map.
#[kani::proof]
#[kani::unwind(4)]
fn c12_value_eq_symmetric() {
    let (ta, tb): (u8, u8) = (kani::any(), kani::any());
    kani::assume(ta < 14 && tb < 14);
    let (a, b) = (shallow(ta), shallow(tb));
    let ab = a == b;
    let ba = b == a;
    assert!(ab == ba, "Value == is symmetric");
    assert!((a != b) == !ab, "!= is the negation of ==");
    if (ta == 5 && tb == 7) || (ta == 7 && tb == 5) {
        assert!(ab, "empty list == empty map");
    }
}
/// C12: every shallow value without NaN equals itself.
#[kani::proof]
#[kani::unwind(4)]
fn c12_value_eq_reflexive() {
    let tag: u8 = kani::any();
    kani::assume(tag < 14 && tag != 3 && tag != 4);
    let v = shallow(tag);
    let w = v.clone();
    assert!(v == w, "every value except NaN equals itself");
    let x: f64 = kani::any();
    kani::assume(!x.is_nan());
    assert!(Value::scalar(x) == Value::scalar(x));
}
/// C12: strings compare by content with equal quote kinds.
#[kani::proof]
#[kani::unwind(4)]
fn c12_value_string_same_quotes() {
    let q = match kani::any::<u8>() % 3 {
        0 => Quotes::Double,
        1 => Quotes::Single,
        _ => Quotes::None,
    };
    let a = Value::Literal(CssString::new(String::from("a"), q));
    let b = Value::Literal(CssString::new(String::from("b"), q));
    assert!(a == a.clone() && !(a == b) && !(b == a));
}
