//! K-snippet unit U-controlflow (C17): which branch `@if` runs and how often
//! `@while` repeats, at stylesheet level (`output::transform::handle_item`)
//! — statement ranges extracted from /repo on every run (tools/extract.py);
//! the evaluation of the condition is replaced by a probe that returns the
//! next of a list of values chosen by the harness, running the body by a
//! probe that counts (listed substitutions).  The function-level twins
//! (`ScopeRef::eval_body`) are in scopefns.rs.
use super::*;
use crate::css;
use std::cell::Cell;

pub(crate) fn cond_value(tag: u8) -> css::Value {
    match tag {
        0 => css::Value::True,
        1 => css::Value::False,
        2 => css::Value::Null,
        3 => css::Value::scalar(0),
        4 => css::Value::List(vec![], None, false),
        5 => css::Value::Literal(css::CssString::new(String::new(), crate::value::Quotes::None)),
        6 => css::Value::Map(Default::default()),
        _ => css::Value::List(vec![], None, true),
    }
}
pub(crate) fn truthy(tag: u8) -> bool {
    tag != 1 && tag != 2
}

//@range file=rsass/src/output/transform.rs fn=handle_item from="let cond = cond.evaluate(scope.clone())?" until="check_body(items, BodyContext::Control)?;"
//@  header: fn snippet_if_branch(cond_value: css::Value, do_if: u8, do_else: u8) -> Result<u8, ()>
//@  subst: cond.evaluate(scope.clone())? => cond_value
//@  tail: Ok(items)
//@end

/// C17: @if runs the first branch exactly when its condition is truthy —
/// 0, the empty string, the empty list and the empty map are truthy; only
/// false and null are not.
macro_rules! if_case {
    ($name:ident, $tag:expr) => {
        #[kani::proof]
        #[kani::unwind(4)]
        fn $name() {
            let r = snippet_if_branch(cond_value($tag), 10, 20);
            assert!(r == Ok(if truthy($tag) { 10 } else { 20 }), "@if runs the first branch exactly when the condition is truthy");
        }
    };
}
if_case!(c17_if_true, 0);
if_case!(c17_if_false, 1);
if_case!(c17_if_null, 2);
if_case!(c17_if_zero, 3);
if_case!(c17_if_empty_list, 4);
if_case!(c17_if_empty_string, 5);
if_case!(c17_if_empty_map, 6);
if_case!(c17_if_empty_bracketed_list, 7);

pub(crate) struct Loop {
    conds: [u8; 4],
    asked: Cell<usize>,
    ran: Cell<usize>,
}
impl Loop {
    fn next_cond(&self) -> Result<css::Value, ()> {
        let i = self.asked.get();
        self.asked.set(i + 1);
        Ok(cond_value(if i < 4 { self.conds[i] } else { 1 }))
    }
    fn run_body(&self) -> Result<(), ()> {
        self.ran.set(self.ran.get() + 1);
        Ok(())
    }
}

//@range file=rsass/src/output/transform.rs fn=handle_item from="while cond.evaluate(scope.clone())?.is_true() {" balanced=1
//@  header: fn snippet_while(probe: &Loop) -> Result<(), ()>
//@  subst: cond.evaluate(scope.clone())? => probe.next_cond()?
//@  subst: handle_body(body, dest, scope.clone(), file_context)? => probe.run_body()?
//@  tail: Ok(())
//@end

/// C17: @while repeats while its condition is truthy: the body runs once
/// per truthy condition value, the condition is evaluated once more.
/// (Concrete condition sequences: a symbolic choice of value kind makes CBMC
/// run out of memory.)
macro_rules! while_case {
    ($name:ident, $conds:expr, $k:expr) => {
        #[kani::proof]
        #[kani::unwind(7)]
        fn $name() {
            let p = Loop { conds: $conds, asked: Cell::new(0), ran: Cell::new(0) };
            assert!(snippet_while(&p).is_ok());
            assert!(p.ran.get() == $k, "@while runs the body once per truthy condition");
            assert!(p.asked.get() == $k + 1, "… and stops at the first falsey one");
        }
    };
}
while_case!(c17_while_false_at_once, [1, 0, 0, 0], 0);
while_case!(c17_while_null_at_once, [2, 0, 0, 0], 0);
while_case!(c17_while_twice_then_null, [0, 3, 2, 0], 2);
while_case!(c17_while_three_truthy_kinds_then_false, [3, 4, 5, 1], 3);

// ---- C36: which loud comments reach the output (`Item::Comment` arm of
// handle_item), extracted each run; the scope's format and the destination
// are probes (listed substitutions). ----
pub(crate) struct CommentProbe {
    text: &'static str,
    pushed: Cell<u8>,
    /// whether the comment's source text contains interpolation (then the
    /// evaluated text is known only after evaluation)
    interpolated: bool,
}
impl CommentProbe {
    /// as `SassString::single_raw`: the source text, if it is one raw part
    fn single_raw(&self) -> Option<&'static str> {
        if self.interpolated { None } else { Some(self.text) }
    }
    fn text(&self) -> &'static str {
        self.text
    }
    fn push(&self, _text: &'static str) {
        self.pushed.set(self.pushed.get() + 1);
    }
}

//@range file=rsass/src/output/transform.rs fn=handle_item after="Item::Comment(c) => {" until="\n        }\n        Item::None"
//@  header: fn snippet_comment(compressed_arg: bool, c: &CommentProbe, dest: &CommentProbe) -> Result<(), ()>
//@  subst: scope.get_format().is_compressed() => compressed_arg
//@  subst: c.evaluate(scope)?.take_value() => c.text()
//@  resubst: dest\.push_comment\((.*?)\.into\(\)\) => dest.push(\1)
//@  tail: Ok(())
//@end

/// C36: in expanded style every loud comment reached by evaluation is
/// emitted (once).
#[kani::proof]
#[kani::unwind(8)]
fn c36_expanded_keeps_every_loud_comment() {
    let bang: bool = kani::any();
    let p = CommentProbe { text: if bang { "! keep " } else { " plain " }, pushed: Cell::new(0), interpolated: kani::any() };
    assert!(snippet_comment(false, &p, &p).is_ok());
    assert!(p.pushed.get() == 1, "expanded: the comment is emitted exactly once");
}
/// C36: in compressed style an ordinary loud comment is dropped.
#[kani::proof]
#[kani::unwind(8)]
fn c36_compressed_drops_ordinary_comments() {
    let p = CommentProbe { text: " plain ", pushed: Cell::new(0), interpolated: kani::any() };
    assert!(snippet_comment(true, &p, &p).is_ok());
    assert!(p.pushed.get() == 0, "compressed: an ordinary comment is not emitted");
}
/// C36: in compressed style comments starting with `/*!` are kept.
#[kani::proof]
#[kani::unwind(8)]
fn c36_compressed_keeps_bang_comments() {
    let p = CommentProbe { text: "! keep ", pushed: Cell::new(0), interpolated: kani::any() };
    assert!(snippet_comment(true, &p, &p).is_ok());
    assert!(p.pushed.get() == 1, "compressed: a comment starting with /*! is kept");
}

// ---- C16: which statements open a new variable scope, and which scope their
// body runs in.  The arms of handle_item for @media, at-rules, @for, @while
// and @each are extracted WITHOUT textual substitution: inside this module
// the names `ScopeRef`, `handle_body` and `check_body` resolve to the
// recording stand-ins below instead of the real ones (listed abstraction),
// so each arm's own statements run and what they do with scopes is logged.
pub(crate) mod scopeshape {
    use super::super::BodyContext;
    /// stand-in: the real selector context is a recursive structure CBMC
    /// does not finish on; only "root selectors were asked for" matters here.
    pub struct SelectorCtx;
    impl SelectorCtx {
        pub fn root() -> Self {
            SelectorCtx
        }
    }
    impl From<u8> for SelectorCtx {
        fn from(_nested: u8) -> Self {
            SelectorCtx
        }
    }

    #[derive(Clone, Copy, PartialEq, Debug)]
    pub enum Ev {
        Sub { new: u8, parent: u8, selectors: bool },
        Define { scope: u8, name: u8, value: u8 },
        DefineMulti { scope: u8, value: u8 },
        Store { scope: u8 },
        Restore { scope: u8, token: u8 },
        Cond { scope: u8 },
        Body { scope: u8, dest: u8 },
        Global { new: u8, format: u8 },
        Parsed { scope: u8, dest: u8 },
    }
    pub struct Log {
        ev: core::cell::Cell<[Option<Ev>; 12]>,
        n: core::cell::Cell<usize>,
        next: core::cell::Cell<u8>,
    }
    impl Log {
        fn log(&self, e: Ev) {
            let n = self.n.get();
            if n < 12 {
                let mut all = self.ev.get();
                all[n] = Some(e);
                self.ev.set(all);
            }
            self.n.set(n + 1);
        }
        pub fn logged(&self) -> usize {
            self.n.get()
        }
        pub fn ev(&self, i: usize) -> Option<Ev> {
            if i < 12 { self.ev.get()[i] } else { None }
        }
    }

    fn fresh_log() -> &'static Log {
        Box::leak(Box::new(Log {
            ev: core::cell::Cell::new([None; 12]),
            n: core::cell::Cell::new(0),
            next: core::cell::Cell::new(1),
        }))
    }
    /// Output format stand-in: a number, and (when it was read from a scope)
    /// that scope's log; `Default` is format 0 from nowhere.
    #[derive(Default)]
    pub struct Fmt(pub u8, pub Option<&'static Log>);
    /// Error stand-in with the constructor the extracted text uses.
    pub enum Error {
        S(String),
        Other,
    }
    impl From<()> for Error {
        fn from(_: ()) -> Error {
            Error::Other
        }
    }
    /// `with` configuration value / source file stand-ins.
    pub struct Val(pub u8);
    impl Val {
        pub fn do_evaluate(&self, _scope: ScopeRef, _arithmetic: bool) -> Result<u8, Error> {
            Ok(self.0)
        }
    }
    pub struct Src;
    impl Src {
        pub fn parse(&self) -> Result<u8, Error> {
            Ok(0)
        }
    }
    fn handle_parsed(_parsed: u8, dest: &mut Dest, module: ScopeRef, _file_context: ()) -> Result<(), Error> {
        module.log.log(Ev::Parsed { scope: module.id, dest: dest.0 });
        Ok(())
    }

    #[derive(Clone)]
    pub struct ScopeRef {
        pub id: u8,
        pub format: u8,
        pub log: &'static Log,
    }
    impl ScopeRef {
        pub fn outer() -> ScopeRef {
            ScopeRef { id: 0, format: 7, log: fresh_log() }
        }
        fn fresh(parent: &ScopeRef, selectors: bool) -> ScopeRef {
            let new = parent.log.next.get();
            parent.log.next.set(new + 1);
            parent.log.log(Ev::Sub { new, parent: parent.id, selectors });
            ScopeRef { id: new, format: parent.format, log: parent.log }
        }
        pub fn sub(parent: ScopeRef) -> ScopeRef {
            Self::fresh(&parent, false)
        }
        pub fn sub_selectors(parent: ScopeRef, _selectors: SelectorCtx) -> ScopeRef {
            Self::fresh(&parent, true)
        }
        pub fn get_format(&self) -> Fmt {
            Fmt(self.format, Some(self.log))
        }
        /// a new module scope: no parent, the given format
        pub fn new_global(format: Fmt) -> ScopeRef {
            let log = format.1.unwrap_or_else(fresh_log);
            let new = log.next.get();
            log.next.set(new + 1);
            log.log(Ev::Global { new, format: format.0 });
            ScopeRef { id: new, format: format.0, log }
        }
        /// the value this scope itself was given by `define`
        pub fn get_or_none(&self, name: &u8) -> Option<u8> {
            let mut i = 0;
            let mut found = None;
            while i < 12 {
                if let Some(Ev::Define { scope, name: n, value }) = self.log.ev(i) {
                    if scope == self.id && n == *name {
                        found = Some(value);
                    }
                }
                i += 1;
            }
            found
        }
        pub fn define(&self, name: u8, value: u8) -> Result<(), ()> {
            self.log.log(Ev::Define { scope: self.id, name, value });
            Ok(())
        }
        pub fn define_multi(&self, _names: &u8, value: u8) -> Result<(), ()> {
            self.log.log(Ev::DefineMulti { scope: self.id, value });
            Ok(())
        }
        pub fn store_local_values(&self, _names: &u8) -> Token {
            self.log.log(Ev::Store { scope: self.id });
            Token(77)
        }
        pub fn restore_local_values(&self, token: Token) {
            self.log.log(Ev::Restore { scope: self.id, token: token.0 });
        }
    }
    pub struct Token(u8);
    /// Destination: identified by a number, so that "the body was written
    /// to the new @media / at-rule block" can be stated.
    pub struct Dest(pub u8);
    impl Dest {
        pub fn start_atrule(&mut self, _name: String, _args: u8) -> Dest {
            Dest(self.0 + 1)
        }
    }
    /// Condition / range / value-list stand-ins: evaluate in the given scope
    /// (logged) and give harness-chosen results.
    pub struct Cond(pub core::cell::Cell<u8>);
    pub struct Truth(bool);
    impl Truth {
        pub fn is_true(&self) -> bool {
            self.0
        }
    }
    impl Cond {
        /// true for the first n evaluations
        pub fn evaluate(&self, scope: ScopeRef) -> Result<Truth, ()> {
            scope.log.log(Ev::Cond { scope: scope.id });
            let left = self.0.get();
            if left > 0 {
                self.0.set(left - 1);
            }
            Ok(Truth(left > 0))
        }
    }
    pub struct Range2(pub [u8; 2]);
    impl Range2 {
        pub fn evaluate(&self, _scope: ScopeRef) -> Result<[u8; 2], ()> {
            Ok(self.0)
        }
    }
    pub struct Items2([u8; 2]);
    impl Items2 {
        pub fn iter_items(self) -> [u8; 2] {
            self.0
        }
    }
    pub struct Values2(pub [u8; 2]);
    impl Values2 {
        pub fn evaluate(&self, _scope: ScopeRef) -> Result<Items2, ()> {
            Ok(Items2(self.0))
        }
    }
    /// Stand-ins for the style-rule arm: selector expressions evaluate to a
    /// number, nesting them in the scope's selector context gives another,
    /// `start_rule` opens a block in the destination.
    pub struct SelExpr(pub u8);
    impl SelExpr {
        pub fn eval(&self, _scope: ScopeRef) -> Result<u8, ()> {
            Ok(self.0)
        }
    }
    pub struct SelCtxOfScope;
    impl SelCtxOfScope {
        pub fn nest(&self, selectors: u8) -> u8 {
            selectors
        }
    }
    pub struct Started(Dest);
    impl Started {
        pub fn no_pos(self) -> Result<Dest, ()> {
            Ok(self.0)
        }
    }
    impl Dest {
        pub fn start_rule(&mut self, _selectors: u8) -> Started {
            Started(Dest(self.0 + 1))
        }
    }
    impl ScopeRef {
        pub fn get_selectors(&self) -> SelCtxOfScope {
            SelCtxOfScope
        }
    }
    fn check_body(_body: &u8, _context: BodyContext) -> Result<(), ()> {
        Ok(())
    }
    fn handle_body(_body: &u8, dest: &mut Dest, scope: ScopeRef, _file_context: ()) -> Result<(), ()> {
        scope.log.log(Ev::Body { scope: scope.id, dest: dest.0 });
        Ok(())
    }

//@range file=rsass/src/output/transform.rs fn=handle_item after="let mut atmedia = dest.start_atmedia(args.try_into()?);" until="\n        }"
//@  header: pub fn snippet_media_scope(body: Option<&u8>, mut atmedia: Dest, scope: ScopeRef, file_context: ()) -> Result<(), ()>
//@  tail: Ok(())
//@end

//@range file=rsass/src/output/transform.rs fn=handle_item from="let mut atrule = dest.start_atrule(name.clone(), args);" until="\n            } else {"
//@  header: pub fn snippet_atrule_scope(name: String, args: u8, body: &u8, dest: &mut Dest, scope: ScopeRef, file_context: ()) -> Result<(), ()>
//@  tail: Ok(())
//@end

//@range file=rsass/src/output/transform.rs fn=handle_item from="|dest| {" nth=1 balanced=1
//@  header: pub fn snippet_use_module(with: &[(u8, Val, bool)], sourcefile: &Src, scope: ScopeRef, file_context: ()) -> Result<ScopeRef, Error>
//@  head: let mut dest0 = Dest(5); let f =
//@  tail: ; f(&mut dest0)
//@end

//@range file=rsass/src/output/transform.rs fn=handle_item from="|dest| {" nth=2 balanced=1
//@  header: pub fn snippet_forward_module(with: &[(u8, Val, bool)], sourcefile: &Src, scope: ScopeRef, file_context: ()) -> Result<ScopeRef, Error>
//@  head: let mut dest0 = Dest(5); let f =
//@  tail: ; f(&mut dest0)
//@end

//@range file=rsass/src/output/transform.rs fn=handle_item after="Item::Rule(selectors, body) => {" until="\n        }"
//@  header: pub fn snippet_rule_arm(selectors: &SelExpr, body: &u8, dest: &mut Dest, scope: ScopeRef, file_context: ()) -> Result<(), ()>
//@  tail: Ok(())
//@end

//@range file=rsass/src/output/transform.rs fn=handle_item after="Item::For(name, range, body) => {" until="\n        }"
//@  header: pub fn snippet_for_arm(name: &u8, range: &Range2, body: &u8, dest: &mut Dest, scope: ScopeRef, file_context: ()) -> Result<(), ()>
//@  tail: Ok(())
//@end

//@range file=rsass/src/output/transform.rs fn=handle_item after="Item::While(cond, body) => {" until="\n        }"
//@  header: pub fn snippet_while_arm(cond: &Cond, body: &u8, dest: &mut Dest, scope: ScopeRef, file_context: ()) -> Result<(), ()>
//@  tail: Ok(())
//@end

//@range file=rsass/src/output/transform.rs fn=handle_item after="Item::Each(names, values, body) => {" until="\n        }"
//@  header: pub fn snippet_each_arm(names: &u8, values: &Values2, body: &u8, dest: &mut Dest, scope: ScopeRef, file_context: ()) -> Result<(), ()>
//@  tail: Ok(())
//@end
}
use scopeshape::{Ev, ScopeRef as MockScope};

/// Helpers over the event log.  `opened_below_outer(s)`: scope `s` is not
/// the enclosing scope itself but was opened (directly or through other
/// newly opened scopes) below it.
fn parent_of(log: &scopeshape::Log, s: u8) -> Option<u8> {
    let mut i = 0;
    while i < 12 {
        if let Some(Ev::Sub { new, parent, .. }) = log.ev(i) {
            if new == s {
                return Some(parent);
            }
        }
        i += 1;
    }
    None
}
fn opened_below_outer(log: &scopeshape::Log, s: u8) -> bool {
    let mut cur = s;
    let mut steps = 0;
    while steps < 4 {
        match parent_of(log, cur) {
            Some(0) => return true,
            Some(p) => cur = p,
            None => return false,
        }
        steps += 1;
    }
    false
}
/// the i-th Body event: (scope, destination, index in the log)
fn nth_body(log: &scopeshape::Log, n: usize) -> Option<(u8, u8, usize)> {
    let mut i = 0;
    let mut seen = 0;
    while i < 12 {
        if let Some(Ev::Body { scope, dest }) = log.ev(i) {
            if seen == n {
                return Some((scope, dest, i));
            }
            seen += 1;
        }
        i += 1;
    }
    None
}
fn count_cond(log: &scopeshape::Log) -> usize {
    let mut i = 0;
    let mut n = 0;
    while i < 12 {
        if let Some(Ev::Cond { .. }) = log.ev(i) {
            n += 1;
        }
        i += 1;
    }
    n
}

/// C16: the body of `@media` runs (once) in a NEW scope opened below the
/// enclosing one — variables declared in it are local to the block — and is
/// written to the @media block.
#[kani::proof]
#[kani::unwind(14)]
fn c16_media_body_runs_in_a_new_sub_scope() {
    let outer = MockScope::outer();
    assert!(scopeshape::snippet_media_scope(Some(&0), scopeshape::Dest(5), outer.clone(), ()).is_ok());
    match nth_body(outer.log, 0) {
        Some((scope, dest, _)) => {
            assert!(opened_below_outer(outer.log, scope), "@media: the body runs in a new scope opened below the enclosing scope, not in the enclosing scope itself");
            assert!(dest == 5, "@media: the body is written to the @media block");
        }
        None => assert!(false, "@media: the body runs"),
    }
    assert!(nth_body(outer.log, 1).is_none(), "@media: the body runs once");
}
/// C16: the body of an at-rule runs in a new scope, written to the at-rule's
/// block.
fn atrule_case(name: &str) {
    let outer = MockScope::outer();
    let mut dest = scopeshape::Dest(5);
    assert!(scopeshape::snippet_atrule_scope(String::from(name), 0, &0, &mut dest, outer.clone(), ()).is_ok());
    match nth_body(outer.log, 0) {
        Some((scope, dest, _)) => {
            assert!(opened_below_outer(outer.log, scope), "at-rule: the body runs in a new scope opened below the enclosing scope");
            assert!(dest == 6, "at-rule: the body is written inside the new block");
        }
        None => assert!(false, "at-rule: the body runs"),
    }
    assert!(nth_body(outer.log, 1).is_none(), "at-rule: the body runs once");
}
#[kani::proof]
#[kani::unwind(14)]
fn c16_atrule_body_runs_in_a_new_sub_scope() {
    atrule_case("supports");
}
#[kani::proof]
#[kani::unwind(14)]
fn c16_keyframes_body_runs_in_a_new_sub_scope() {
    atrule_case("keyframes");
}
/// C16: the body of a style rule runs (once) in a new scope opened below the
/// enclosing one, written to the rule's block.
#[kani::proof]
#[kani::unwind(14)]
fn c16_rule_body_runs_in_a_new_sub_scope() {
    let outer = MockScope::outer();
    let mut dest = scopeshape::Dest(5);
    assert!(scopeshape::snippet_rule_arm(&scopeshape::SelExpr(3), &0, &mut dest, outer.clone(), ()).is_ok());
    match nth_body(outer.log, 0) {
        Some((scope, dest, _)) => {
            assert!(opened_below_outer(outer.log, scope), "style rule: the body runs in a new scope opened below the enclosing scope");
            assert!(dest == 6, "style rule: the body is written inside the rule's block");
        }
        None => assert!(false, "style rule: the body runs"),
    }
    assert!(nth_body(outer.log, 1).is_none(), "style rule: the body runs once");
}
/// C16: the `@for` variable is local to the loop: for each value the
/// variable is defined in a scope opened below the enclosing one (never in
/// the enclosing scope itself) and the body then runs in that same scope.
#[kani::proof]
#[kani::unwind(14)]
fn c16_for_variable_is_local_to_each_iteration() {
    let outer = MockScope::outer();
    let mut dest = scopeshape::Dest(5);
    let (a, b): (u8, u8) = (kani::any(), kani::any());
    assert!(scopeshape::snippet_for_arm(&9, &scopeshape::Range2([a, b]), &0, &mut dest, outer.clone(), ()).is_ok());
    let vals = [a, b];
    let mut k = 0;
    while k < 2 {
        match nth_body(outer.log, k) {
            Some((scope, dest, at)) => {
                assert!(opened_below_outer(outer.log, scope), "@for: the body runs in a new scope, not in the enclosing one");
                assert!(at >= 1 && outer.log.ev(at - 1) == Some(Ev::Define { scope, name: 9, value: vals[k] }), "@for: the loop variable is defined, with this iteration's value, in the scope the body runs in");
                assert!(dest == 5);
            }
            None => assert!(false, "@for: one body run per value"),
        }
        k += 1;
    }
    assert!(nth_body(outer.log, 2).is_none(), "@for over two values: two body runs");
}
/// C16: `@while` never runs its body in the enclosing scope itself (what is
/// declared in the body stays local); the body runs once per truthy
/// condition.
#[kani::proof]
#[kani::unwind(14)]
fn c16_while_body_runs_in_a_sub_scope() {
    let outer = MockScope::outer();
    let mut dest = scopeshape::Dest(5);
    let cond = scopeshape::Cond(Cell::new(2));
    assert!(scopeshape::snippet_while_arm(&cond, &0, &mut dest, outer.clone(), ()).is_ok());
    let mut k = 0;
    while k < 2 {
        match nth_body(outer.log, k) {
            Some((scope, _, _)) => assert!(opened_below_outer(outer.log, scope), "@while: the body runs in a scope opened below the enclosing one"),
            None => assert!(false, "@while with two truthy conditions: two body runs"),
        }
        k += 1;
    }
    assert!(nth_body(outer.log, 2).is_none(), "@while: no run after the condition became false");
    assert!(count_cond(outer.log) == 3, "@while: the condition is evaluated before every run and once more");
}
/// C16: `@each` variables are local to the loop.  Either the loop runs in a
/// scope of its own, or — rsass's way — it runs in the enclosing scope and
/// brackets the iterations with store_local_values / restore_local_values:
/// then the save comes before the first binding and exactly what was saved
/// is restored after the last body run.  In both cases each value is bound
/// immediately before the body runs, in the scope the body runs in.
#[kani::proof]
#[kani::unwind(14)]
fn c16_each_saves_and_restores_its_variables() {
    let outer = MockScope::outer();
    let mut dest = scopeshape::Dest(5);
    let (a, b): (u8, u8) = (kani::any(), kani::any());
    assert!(scopeshape::snippet_each_arm(&9, &scopeshape::Values2([a, b]), &0, &mut dest, outer.clone(), ()).is_ok());
    let vals = [a, b];
    let mut k = 0;
    let mut in_outer = false;
    while k < 2 {
        match nth_body(outer.log, k) {
            Some((scope, _, at)) => {
                assert!(at >= 1 && outer.log.ev(at - 1) == Some(Ev::DefineMulti { scope, value: vals[k] }), "@each: this iteration's value is bound right before the body runs, in the body's scope");
                if scope == 0 {
                    in_outer = true;
                } else {
                    assert!(opened_below_outer(outer.log, scope));
                }
            }
            None => assert!(false, "@each: one body run per value"),
        }
        k += 1;
    }
    assert!(nth_body(outer.log, 2).is_none(), "@each over two values: two body runs");
    if in_outer {
        let n = outer.log.logged();
        assert!(outer.log.ev(0) == Some(Ev::Store { scope: 0 }), "@each in the enclosing scope: the variables are saved before the first binding");
        assert!(n >= 1 && outer.log.ev(n - 1) == Some(Ev::Restore { scope: 0, token: 77 }), "@each in the enclosing scope: exactly what was saved is restored after the last run");
    }
}
/// C36 (and C16): a module loaded by `@use` / `@forward` is evaluated in a
/// new global scope that has the output FORMAT of the scope that loads it
/// (so its comments are kept or dropped by the same style), its `with`
/// configuration is defined in that new scope, and the module's items are
/// processed in it.
fn module_case(forward: bool) {
    let outer = MockScope::outer();
    let with = [(3u8, scopeshape::Val(30), false)];
    let r = if forward {
        scopeshape::snippet_forward_module(&with, &scopeshape::Src, outer.clone(), ())
    } else {
        scopeshape::snippet_use_module(&with, &scopeshape::Src, outer.clone(), ())
    };
    match r {
        Ok(module) => assert!(module.id == 1 && module.format == 7, "the loaded module's scope is the new one, with the loader's format"),
        Err(_) => assert!(false, "loading succeeds"),
    }
    assert!(outer.log.logged() == 3);
    assert!(outer.log.ev(0) == Some(Ev::Global { new: 1, format: 7 }), "a loaded module gets a new global scope with the output format of the loading scope");
    assert!(outer.log.ev(1) == Some(Ev::Define { scope: 1, name: 3, value: 30 }), "configuration goes into the module's scope");
    assert!(outer.log.ev(2) == Some(Ev::Parsed { scope: 1, dest: 5 }), "the module's items are processed in the new scope");
}
#[kani::proof]
#[kani::unwind(14)]
fn c36_used_module_keeps_output_format() {
    module_case(false);
}
#[kani::proof]
#[kani::unwind(14)]
fn c36_forwarded_module_keeps_output_format() {
    module_case(true);
}

#[kani::proof]
fn cover_transformfns() {
    let t: u8 = kani::any();
    kani::cover!(truthy(t));
}
