//! K-snippet unit U-controlflow (C17): which branch `@if` runs and how often
//! `@while` repeats, at stylesheet level (`output::transform::handle_item`)
//! — statement ranges extracted from /repo on every run (tools/extract.py);
//! the evaluation of the condition is replaced by a probe that returns the
//! next of a list of values chosen by the harness, running the body by a
//! probe that counts (listed substitutions).  The function-level twins
//! (`ScopeRef::eval_body`) are in scopefns.rs.
use super::*;
use crate::css;
use std::cell::Cell;

pub(crate) fn cond_value(tag: u8) -> css::Value {
    match tag {
        0 => css::Value::True,
        1 => css::Value::False,
        2 => css::Value::Null,
        3 => css::Value::scalar(0),
        4 => css::Value::List(vec![], None, false),
        5 => css::Value::Literal(css::CssString::new(String::new(), crate::value::Quotes::None)),
        6 => css::Value::Map(Default::default()),
        _ => css::Value::List(vec![], None, true),
    }
}
pub(crate) fn truthy(tag: u8) -> bool {
    tag != 1 && tag != 2
}

//@range file=rsass/src/output/transform.rs fn=handle_item from="let cond = cond.evaluate(scope.clone())?" until="check_body(items, BodyContext::Control)?;"
//@  header: fn snippet_if_branch(cond_value: css::Value, do_if: u8, do_else: u8) -> Result<u8, ()>
//@  subst: cond.evaluate(scope.clone())? => cond_value
//@  tail: Ok(items)
//@end

/// C17: @if runs the first branch exactly when its condition is truthy —
/// 0, the empty string, the empty list and the empty map are truthy; only
/// false and null are not.
macro_rules! if_case {
    ($name:ident, $tag:expr) => {
        #[kani::proof]
        #[kani::unwind(4)]
        fn $name() {
            let r = snippet_if_branch(cond_value($tag), 10, 20);
            assert!(r == Ok(if truthy($tag) { 10 } else { 20 }), "@if runs the first branch exactly when the condition is truthy");
        }
    };
}
if_case!(c17_if_true, 0);
if_case!(c17_if_false, 1);
if_case!(c17_if_null, 2);
if_case!(c17_if_zero, 3);
if_case!(c17_if_empty_list, 4);
if_case!(c17_if_empty_string, 5);
if_case!(c17_if_empty_map, 6);
if_case!(c17_if_empty_bracketed_list, 7);

pub(crate) struct Loop {
    conds: [u8; 4],
    asked: Cell<usize>,
    ran: Cell<usize>,
}
impl Loop {
    fn next_cond(&self) -> Result<css::Value, ()> {
        let i = self.asked.get();
        self.asked.set(i + 1);
        Ok(cond_value(if i < 4 { self.conds[i] } else { 1 }))
    }
    fn run_body(&self) -> Result<(), ()> {
        self.ran.set(self.ran.get() + 1);
        Ok(())
    }
}

//@range file=rsass/src/output/transform.rs fn=handle_item from="while cond.evaluate(scope.clone())?.is_true() {" balanced=1
//@  header: fn snippet_while(probe: &Loop) -> Result<(), ()>
//@  subst: cond.evaluate(scope.clone())? => probe.next_cond()?
//@  subst: handle_body(body, dest, scope.clone(), file_context)? => probe.run_body()?
//@  tail: Ok(())
//@end

/// C17: @while repeats while its condition is truthy: the body runs once
/// per truthy condition value, the condition is evaluated once more.
/// (Concrete condition sequences: a symbolic choice of value kind makes CBMC
/// run out of memory.)
macro_rules! while_case {
    ($name:ident, $conds:expr, $k:expr) => {
        #[kani::proof]
        #[kani::unwind(7)]
        fn $name() {
            let p = Loop { conds: $conds, asked: Cell::new(0), ran: Cell::new(0) };
            assert!(snippet_while(&p).is_ok());
            assert!(p.ran.get() == $k, "@while runs the body once per truthy condition");
            assert!(p.asked.get() == $k + 1, "… and stops at the first falsey one");
        }
    };
}
while_case!(c17_while_false_at_once, [1, 0, 0, 0], 0);
while_case!(c17_while_null_at_once, [2, 0, 0, 0], 0);
while_case!(c17_while_twice_then_null, [0, 3, 2, 0], 2);
while_case!(c17_while_three_truthy_kinds_then_false, [3, 4, 5, 1], 3);

// ---- C36: which loud comments reach the output (`Item::Comment` arm of
// handle_item), extracted each run; the scope's format and the destination
// are probes (listed substitutions). ----
pub(crate) struct CommentProbe {
    text: &'static str,
    pushed: Cell<u8>,
}
impl CommentProbe {
    fn text(&self) -> &'static str {
        self.text
    }
    fn push(&self, _text: &'static str) {
        self.pushed.set(self.pushed.get() + 1);
    }
}

//@range file=rsass/src/output/transform.rs fn=handle_item after="Item::Comment(c) => {" until="\n        }\n        Item::None"
//@  header: fn snippet_comment(compressed_arg: bool, c: &CommentProbe, dest: &CommentProbe) -> Result<(), ()>
//@  subst: scope.get_format().is_compressed() => compressed_arg
//@  subst: c.evaluate(scope)?.take_value() => c.text()
//@  resubst: dest\.push_comment\((.*?)\.into\(\)\) => dest.push(\1)
//@  tail: Ok(())
//@end

/// C36: in expanded style every loud comment reached by evaluation is
/// emitted (once).
#[kani::proof]
#[kani::unwind(8)]
fn c36_expanded_keeps_every_loud_comment() {
    let bang: bool = kani::any();
    let p = CommentProbe { text: if bang { "! keep " } else { " plain " }, pushed: Cell::new(0) };
    assert!(snippet_comment(false, &p, &p).is_ok());
    assert!(p.pushed.get() == 1, "expanded: the comment is emitted exactly once");
}
/// C36: in compressed style an ordinary loud comment is dropped.
#[kani::proof]
#[kani::unwind(8)]
fn c36_compressed_drops_ordinary_comments() {
    let p = CommentProbe { text: " plain ", pushed: Cell::new(0) };
    assert!(snippet_comment(true, &p, &p).is_ok());
    assert!(p.pushed.get() == 0, "compressed: an ordinary comment is not emitted");
}
/// C36: in compressed style comments starting with `/*!` are kept.
#[kani::proof]
#[kani::unwind(8)]
fn c36_compressed_keeps_bang_comments() {
    let p = CommentProbe { text: "! keep ", pushed: Cell::new(0) };
    assert!(snippet_comment(true, &p, &p).is_ok());
    assert!(p.pushed.get() == 1, "compressed: a comment starting with /*! is kept");
}

#[kani::proof]
fn cover_transformfns() {
    let t: u8 = kani::any();
    kani::cover!(truthy(t));
}
