//! Contracts and proof harnesses for rsass/src/output/format.rs
//! (mounted by `#[cfg(kani)] #[path] mod kani_verif;`, see MANIFEST.hooks).
use super::*;

/// Bound up to which the contract of `get_indent` is CHECKED.  Up to 80
/// spaces the function is loop-free (a slice of a static string).  Beyond
/// that it calls `long_indent`, whose contract is proved for
/// 80 < len <= INDENT_CHECKED only (covers C01's 64 nesting levels = 128
/// columns), labelled bounded.
pub(crate) const INDENT_CHECKED: usize = 160;

/// Precondition of `Format::get_indent` (weakest that the proof supports;
/// compressed output ignores `len` altogether).
pub(crate) fn get_indent_pre(f: &Format, len: usize) -> bool {
    f.is_compressed() || len <= INDENT_CHECKED
}

/// Postcondition, from the doc comment / C07: compressed => "", otherwise a
/// newline followed by exactly `len` spaces.  The "every byte" part is
/// stated over a nondeterministic index (universal when checked).
pub(crate) fn get_indent_post(f: &Format, len: usize, r: &std::borrow::Cow<'static, str>) -> bool {
    if f.is_compressed() {
        r.is_empty()
    } else {
        let b = r.as_bytes();
        let i: usize = kani::any();
        b.len() == len + 1
            && (i >= b.len() || b[i] == if i == 0 { b'\n' } else { b' ' })
    }
}

pub(crate) fn any_style() -> Style {
    match kani::any::<u8>() % 3 {
        0 => Style::Expanded,
        1 => Style::Compressed,
        _ => Style::Introspection,
    }
}
pub(crate) fn any_format() -> Format {
    Format { style: any_style(), precision: kani::any() }
}

// ---- long_indent: the on-demand string for more than 80 spaces ----

/// Contract of `long_indent` (the allocation path of get_indent):
/// requires 80 < len <= INDENT_CHECKED; ensures the result is a newline
/// followed by exactly `len` spaces.
pub(crate) fn long_indent_pre(len: usize) -> bool {
    80 < len && len <= INDENT_CHECKED
}
/// Model of that contract for use at call sites (a hand-written
/// `stub_verified`: `String` is not `kani::Arbitrary`, and the contract
/// determines the result completely, so the model is the contract).
/// Loop-free: a static string of INDENT_CHECKED spaces, truncated.
pub(crate) fn long_indent_by_contract(len: usize) -> String {
    static LONG: &str = "\n                                                                                                                                                                ";
    assert!(long_indent_pre(len), "precondition of long_indent");
    let mut s = String::from(LONG);
    s.truncate(len + 1);
    s
}
fn long_indent_obligation(len: usize) {
    let r = long_indent(len);
    let b = r.as_bytes();
    assert!(b.len() == len + 1, "long_indent: length");
    assert!(b[0] == b'\n', "long_indent: starts with newline");
    let i: usize = kani::any();
    kani::assume(1 <= i && i <= len);
    assert!(b[i] == b' ', "long_indent: spaces only");
    // and the model used at call sites agrees with the real function
    let m = long_indent_by_contract(len);
    assert!(m.len() == r.len() && m.as_bytes()[i] == b[i] && m.as_bytes()[0] == b[0], "long_indent: contract model agrees");
}
/// Proof of the contract of the REAL `long_indent` with concrete lengths
/// (CBMC cannot digest the symbolic-length `String::push` loop; concrete
/// loops unroll exactly).  Quick tier: the boundary lengths; thorough tier:
/// every length 81..=INDENT_CHECKED.  Bounded either way.
#[kani::proof]
#[kani::unwind(170)]
fn c01_long_indent_contract_sampled() {
    long_indent_obligation(81);
    long_indent_obligation(82);
    long_indent_obligation(128);
    long_indent_obligation(INDENT_CHECKED);
}
#[kani::proof]
#[kani::unwind(170)]
fn c01_long_indent_contract_enumerated() {
    let mut len = 81;
    while len <= INDENT_CHECKED {
        long_indent_obligation(len);
        len += 1;
    }
}

/// Contract of get_indent for every style and every len <= INDENT_CHECKED,
/// modular in `long_indent` (replaced by its contract).
#[kani::proof]
#[kani::stub(long_indent, long_indent_by_contract)]
#[kani::unwind(3)]
fn c01_get_indent_contract() {
    let f = any_format();
    let len: usize = kani::any();
    kani::assume(get_indent_pre(&f, len));
    let r = f.get_indent(len);
    assert!(get_indent_post(&f, len, &r), "get_indent: newline + len spaces, or empty when compressed");
}

/// Reachability of the precondition (vacuity guard).
#[kani::proof]
fn cover_get_indent_pre() {
    let f = any_format();
    let len: usize = kani::any();
    kani::cover!(get_indent_pre(&f, len) && len == INDENT_CHECKED && !f.is_compressed());
}

/// Deliberately false assertion: the runner requires this to FAIL, otherwise
/// the back end is not checking anything (vacuity guard (c) of DESIGN §2.2).
#[kani::proof]
fn canary_must_fail() {
    let f = any_format();
    let x: u8 = kani::any();
    assert!(x != 41 || f.is_compressed(), "canary: deliberately false");
}

