//! K-snippet unit U-strfns, part 2 (C26, C01): the complete bodies of
//! string.slice / insert / index / length / to-upper-case / to-lower-case
//! on concrete strings.  (The index arithmetic for ALL indices and lengths is
//! in strfns_arith.rs, mounted separately so that a restructured closure
//! that loses those finer anchors still reaches the whole-body harnesses
//! here.)
use super::*;

// ---- whole closures on concrete strings (bounded): the index arithmetic
// above says nothing about how `len` is obtained, how the offsets are
// applied, or which quotes the result gets.  Here the complete bodies of
// string.slice / insert / index / length are extracted and run on concrete
// strings.  Listed (regex) substitutions, for the argument fetches only:
// `s.get[::<T>](name!(x))?` -> `conv[::<T>](x_arg.clone())?`, i.e. the real
// `TryFrom<Value>` conversion to whatever type the closure asks for, applied
// to a harness-provided css::Value; `s.get_map(name!(x),
// check::unitless_int)?` -> the i64 parameter `x_arg` (the real check goes
// through error formatting, which CBMC cannot finish). ----
use crate::css::CssString;
use crate::sass::CallError;
use crate::value::Quotes;

fn conv<T>(v: Value) -> Result<T, CallError>
where
    T: TryFrom<Value>,
{
    T::try_from(v).map_err(|_| CallError::msg("conversion failed"))
}
fn lit(text: &str, q: Quotes) -> Value {
    Value::Literal(CssString::new(String::from(text), q))
}

//@range file=rsass/src/sass/functions/string.rs fn=create_module after="def!(f, slice(string, start_at, end_at = b\"-1\"), |s| {" until="\n    });"
//@  header: fn snippet_slice_body(string_arg: Value, start_at_arg: i64, end_at_arg: i64) -> Result<Value, CallError>
//@  resubst: s\.get::<(\w+)>\(name!\((\w+)\)\)\? => conv::<\1>(\2_arg.clone())?
//@  resubst: s\.get\(name!\((\w+)\)\)\? => conv(\1_arg.clone())?
//@  resubst: s\.get_map\(name!\((\w+)\), check::unitless_int\)\? => \1_arg
//@end

//@range file=rsass/src/sass/functions/string.rs fn=create_module after="def!(f, insert(string, insert, index), |s| {" until="\n    });"
//@  header: fn snippet_insert_body(string_arg: Value, insert_arg: Value, index_arg: i64) -> Result<Value, CallError>
//@  resubst: s\.get::<(\w+)>\(name!\((\w+)\)\)\? => conv::<\1>(\2_arg.clone())?
//@  resubst: s\.get\(name!\((\w+)\)\)\? => conv(\1_arg.clone())?
//@  resubst: s\.get_map\(name!\((\w+)\), check::unitless_int\)\? => \1_arg
//@end

//@range file=rsass/src/sass/functions/string.rs fn=create_module after="def!(f, index(string, substring), |s| {" until="\n    });"
//@  header: fn snippet_index_body(string_arg: Value, substring_arg: Value) -> Result<Value, CallError>
//@  resubst: s\.get::<(\w+)>\(name!\((\w+)\)\)\? => conv::<\1>(\2_arg.clone())?
//@  resubst: s\.get\(name!\((\w+)\)\)\? => conv(\1_arg.clone())?
//@end

//@range file=rsass/src/sass/functions/string.rs fn=create_module after="def!(f, length(string), |s| {" until="\n    });"
//@  header: fn snippet_length_body(string_arg: Value) -> Result<Value, CallError>
//@  resubst: s\.get::<(\w+)>\(name!\((\w+)\)\)\? => conv::<\1>(\2_arg.clone())?
//@  resubst: s\.get\(name!\((\w+)\)\)\? => conv(\1_arg.clone())?
//@end

fn snippet_slice(string_arg: CssString, start_arg: i64, end_arg: i64) -> Result<Value, CallError> {
    snippet_slice_body(Value::Literal(string_arg), start_arg, end_arg)
}
fn snippet_insert(string_arg: CssString, insert_arg: String, index_arg: i64) -> Result<Value, CallError> {
    // the inserted text is QUOTED: its quotes must not leak into the result
    snippet_insert_body(Value::Literal(string_arg), lit(&insert_arg, Quotes::Single), index_arg)
}
fn snippet_index(string_arg: String, substring_arg: String) -> Result<Value, CallError> {
    snippet_index_body(lit(&string_arg, Quotes::Double), lit(&substring_arg, Quotes::Double))
}
fn snippet_length(string_arg: String) -> Result<Value, CallError> {
    snippet_length_body(lit(&string_arg, Quotes::Double))
}

fn text_of(r: Result<Value, crate::sass::CallError>) -> Option<(String, Quotes)> {
    match r {
        Ok(Value::Literal(s)) => Some((s.value().to_string(), s.quotes())),
        _ => None,
    }
}
fn int_of(r: Result<Value, crate::sass::CallError>) -> Option<i64> {
    match r {
        Ok(Value::Null) => None,
        Ok(Value::Numeric(n, _)) => n.value.into_integer().ok(),
        _ => {
            assert!(false, "a number or null");
            None
        }
    }
}
/// The code points of the test string "äbc" (4 bytes, 3 code points).
const CPS: [&str; 3] = ["ä", "b", "c"];
/// 1-based inclusive position of index `i` in a string of 3 code points
/// (negative counts from the end), unclamped.
fn pos3(i: i64) -> i64 {
    if i < 0 { 3 + i + 1 } else { i }
}

/// C26: string.slice counts code points (not bytes) and keeps the
/// quotedness of its argument.  Concrete index pairs (a symbolic count flows
/// into `collect`'s allocation size, which CBMC cannot represent).
fn slice_case(i: i64, j: i64) {
    let q = if kani::any() { Quotes::Double } else { Quotes::None };
    let r = text_of(snippet_slice(CssString::new(String::from("äbc"), q), i, j));
    let lo = pos3(i).max(1);
    let hi = pos3(j).min(3);
    let mut want = String::new();
    let mut k = 1;
    while k <= 3 {
        if lo <= k && k <= hi {
            want.push_str(CPS[(k - 1) as usize]);
        }
        k += 1;
    }
    match r {
        Some((s, rq)) => {
            assert!(s == want, "slice: the code points at positions i through j (empty when the range is empty)");
            assert!(rq == q, "slice keeps the quotedness of its argument");
        }
        None => assert!(false, "slice of a string is a string"),
    }
}
macro_rules! slice_at {
    ($name:ident, $i:expr, $j:expr) => {
        #[kani::proof]
        #[kani::unwind(8)]
        fn $name() {
            slice_case($i, $j)
        }
    };
}
slice_at!(c26_slice_whole, 1, -1);
slice_at!(c26_slice_first_code_point, 1, 1);
slice_at!(c26_slice_negative_end, 1, -2);
slice_at!(c26_slice_negative_start, -1, -1);
slice_at!(c26_slice_empty_range, 3, 1);
slice_at!(c26_slice_zero_start_past_end, 0, 5);
slice_at!(c26_slice_far_negative_start, -5, 2);

/// C26: string.insert counts code points, inserts before position i
/// clamped to the string, and keeps the quotedness of $string.
fn insert_case(i: i64) {
    let q = if kani::any() { Quotes::Double } else { Quotes::None };
    let r = text_of(snippet_insert(CssString::new(String::from("äbc"), q), String::from("X"), i));
    // number of code points in front of the inserted text
    let before = if i > 0 { (i - 1).min(3) } else if i == 0 { 0 } else { (3 + i + 1).max(0) };
    let mut want = String::new();
    let mut k = 0;
    while k <= 3 {
        if k == before {
            want.push('X');
        }
        if k < 3 {
            want.push_str(CPS[k as usize]);
        }
        k += 1;
    }
    match r {
        Some((s, rq)) => {
            assert!(s == want, "insert: before position i, clamped; positions count code points");
            assert!(rq == q, "insert keeps the quotedness of $string");
        }
        None => assert!(false, "insert gives a string"),
    }
}
macro_rules! insert_at {
    ($name:ident, $i:expr) => {
        #[kani::proof]
        #[kani::unwind(8)]
        fn $name() {
            insert_case($i)
        }
    };
}
insert_at!(c26_insert_at_start, 1);
insert_at!(c26_insert_after_first_code_point, 2);
insert_at!(c26_insert_past_end, 5);
insert_at!(c26_insert_zero, 0);
insert_at!(c26_insert_minus_one_appends, -1);
insert_at!(c26_insert_minus_two, -2);
insert_at!(c26_insert_far_negative, -5);

#[kani::proof]
#[kani::unwind(8)]
fn c26_insert_into_empty_keeps_quotes_of_string() {
    let q = if kani::any() { Quotes::Double } else { Quotes::None };
    match text_of(snippet_insert(CssString::new(String::new(), q), String::from("X"), 1)) {
        Some((s, rq)) => assert!(s == "X" && rq == q, "insert into the empty string keeps $string's quotedness"),
        None => assert!(false, "insert gives a string"),
    }
}
/// C26: string.index gives the first 1-based code-point position of the
/// substring, or null.
#[kani::proof]
#[kani::unwind(12)]
fn c26_index_first_code_point_position() {
    assert!(int_of(snippet_index(String::from("äbc"), String::from("c"))) == Some(3), "index counts code points, not bytes");
    assert!(int_of(snippet_index(String::from("aaab"), String::from("aab"))) == Some(2), "index finds a match that overlaps a failed partial match");
    assert!(int_of(snippet_index(String::from("abab"), String::from("b"))) == Some(2), "index gives the FIRST position");
    assert!(int_of(snippet_index(String::from("abc"), String::from("x"))) == None, "index is null when absent");
}
/// C26: string.length counts code points.
#[kani::proof]
#[kani::unwind(8)]
fn c26_length_counts_code_points() {
    assert!(int_of(snippet_length(String::from("äbc"))) == Some(3), "length counts code points");
    assert!(int_of(snippet_length(String::new())) == Some(0));
}

//@range file=rsass/src/sass/functions/string.rs fn=create_module after="def!(f, to_upper_case(string), |s| {" until="\n    });"
//@  header: fn snippet_to_upper_case_body(string_arg: Value) -> Result<Value, CallError>
//@  resubst: s\.get::<(\w+)>\(name!\((\w+)\)\)\? => conv::<\1>(\2_arg.clone())?
//@  resubst: s\.get\(name!\((\w+)\)\)\? => conv(\1_arg.clone())?
//@end

//@range file=rsass/src/sass/functions/string.rs fn=create_module after="def!(f, to_lower_case(string), |s| {" until="\n    });"
//@  header: fn snippet_to_lower_case_body(string_arg: Value) -> Result<Value, CallError>
//@  resubst: s\.get::<(\w+)>\(name!\((\w+)\)\)\? => conv::<\1>(\2_arg.clone())?
//@  resubst: s\.get\(name!\((\w+)\)\)\? => conv(\1_arg.clone())?
//@end

/// C26: the case functions change only ASCII letters and keep the
/// quotedness of their argument.
#[kani::proof]
#[kani::unwind(10)]
fn c26_case_functions_ascii_only_and_quotes() {
    let q = if kani::any() { Quotes::Double } else { Quotes::None };
    match text_of(snippet_to_upper_case_body(lit("äbC1-z", q))) {
        Some((s, rq)) => assert!(s == "äBC1-Z" && rq == q, "to-upper-case: ASCII letters only, quotedness kept"),
        None => assert!(false, "to-upper-case gives a string"),
    }
    match text_of(snippet_to_lower_case_body(lit("ÄBc1-Z", q))) {
        Some((s, rq)) => assert!(s == "Äbc1-z" && rq == q, "to-lower-case: ASCII letters only, quotedness kept"),
        None => assert!(false, "to-lower-case gives a string"),
    }
}

#[kani::proof]
fn cover_strfns_whole() {
    let q = if kani::any() { Quotes::Double } else { Quotes::None };
    kani::cover!(q == Quotes::None);
}
