//! Proof harnesses for rsass/src/sass/functions/list.rs — unit U-index (C28).
use super::*;

/// `format!` on the error paths costs CBMC minutes per call; the error TEXT
/// is not part of the contract (error PRESENCE is), so it is stubbed.
fn format_stub(_args: std::fmt::Arguments<'_>) -> String {
    String::new()
}

/// C28: nth / set-nth accept 1..n and -n..-1 and nothing else; the result is
/// the 0-based position (so `list[n]` in the callers is in bounds).
/// All doubles, all lengths up to 2^40.
#[kani::proof]
#[kani::stub(std::fmt::format, format_stub)]
#[kani::unwind(3)]
fn c28_index_of() {
    let x: f64 = kani::any();
    let len: usize = kani::any();
    kani::assume(len <= (1usize << 40));
    let r = index_of(Value::scalar(x), len);
    let n = x.round();
    let is_int = (n - x).abs() <= f64::from(f32::EPSILON);
    let l = len as f64;
    match r {
        Ok(i) => {
            assert!(i < len, "index_of: result in bounds");
            assert!(is_int, "index_of: only integers are indices");
            assert!((n >= 1.0 && n <= l && i as f64 == n - 1.0) || (n <= -1.0 && n >= -l && i as f64 == l + n),
                "index_of: 1..n maps to n-1, -n..-1 counts from the end");
        }
        Err(_) => {
            assert!(!is_int || n == 0.0 || n > l || n < -l, "index_of: every index in 1..n / -n..-1 is accepted");
        }
    }
}

/// C28: `get_list` — a list is taken apart unchanged (elements, order,
/// separator, brackets); any other value is a singleton list without
/// separator; an empty map is the empty list.
#[kani::proof]
#[kani::unwind(4)]
fn c28_get_list_shape() {
    let n: u8 = kani::any();
    kani::assume(n <= 2);
    let (x, y): (f64, f64) = (kani::any(), kani::any());
    kani::assume(!x.is_nan() && !y.is_nan());
    let mut items = Vec::new();
    if n >= 1 {
        items.push(Value::scalar(x));
    }
    if n >= 2 {
        items.push(Value::scalar(y));
    }
    let sep = match kani::any::<u8>() % 4 {
        0 => None,
        1 => Some(ListSeparator::Space),
        2 => Some(ListSeparator::Comma),
        _ => Some(ListSeparator::Slash),
    };
    let bra: bool = kani::any();
    let (v, s, b) = get_list(Value::List(items, sep, bra));
    assert!(v.len() == usize::from(n) && s == sep && b == bra, "list: separator and brackets kept");
    if n >= 1 {
        assert!(v[0] == Value::scalar(x));
    }
    if n >= 2 {
        assert!(v[1] == Value::scalar(y), "list: elements and order kept");
    }
    // singleton
    let (v, s, b) = get_list(Value::scalar(x));
    assert!(v.len() == 1 && v[0] == Value::scalar(x) && s.is_none() && !b, "a non-list is a singleton list");
    let (v, s, b) = get_list(Value::Map(Default::default()));
    assert!(v.is_empty() && s.is_none() && !b, "empty map is the empty list");
}

// ---- K-snippet part (C28): list.index, zip's length, list.separator, and
// (further down) the complete bodies of join, append and set-nth.  The Sass functions are
// closures inside `create_module`; the statement ranges below are cut out of
// /repo's current source on every run (tools/extract.py) and wrapped in
// functions of their free variables; argument fetches (`s.get…`) are
// replaced by parameters (listed substitutions). ----

//@range file=rsass/src/sass/functions/list.rs fn=create_module from="let len = lists.iter().map(Vec::len).min().unwrap_or(0);" until="let result = (0..len)"
//@  header: fn snippet_zip_len(lists: &Vec<Vec<u8>>) -> usize
//@  tail: len
//@end

fn any_sep() -> Option<ListSeparator> {
    match kani::any::<u8>() % 4 {
        0 => None,
        1 => Some(ListSeparator::Space),
        2 => Some(ListSeparator::Comma),
        _ => Some(ListSeparator::Slash),
    }
}

/// C28: zip truncates to the shortest list (0 lists: length 0).
#[kani::proof]
#[kani::unwind(5)]
fn c28_zip_truncates_to_shortest() {
    let (a, b, c): (usize, usize, usize) = (kani::any(), kani::any(), kani::any());
    kani::assume(a <= 3 && b <= 3 && c <= 3);
    let lists = vec![vec![0u8; a], vec![0u8; b], vec![0u8; c]];
    let r = snippet_zip_len(&lists);
    assert!(r <= a && r <= b && r <= c && (r == a || r == b || r == c), "zip: length of the shortest list");
    assert!(snippet_zip_len(&Vec::new()) == 0, "zip of nothing is empty");
}

//@range file=rsass/src/sass/functions/list.rs fn=create_module from="let sep = match s.get(name!(list))? {" until="Ok(sep.into())"
//@  header: fn snippet_separator(list: Value) -> &'static str
//@  subst: s.get(name!(list))? => list
//@  tail: sep
//@end

// (element type instantiated at u8: a Vec<css::Value> plus its drop glue
// makes CBMC run out of memory; the loop does not depend on the type.  The
// result wrapping `Value::scalar(i + 1)` / `Value::Null` is replaced by
// `Some(i + 1)` / `None`: even one css::Value result costs > 13 GB here)
//@range file=rsass/src/sass/functions/list.rs fn=create_module from="for (i, v) in v.iter().enumerate() {" until="\n        }\n"
//@  header: fn snippet_list_index(v: Vec<u8>, value: u8) -> Result<Option<usize>, ()>
//@  subst: Ok(Value::scalar(i + 1)) => Ok(Some(i + 1))
//@  subst: Ok(Value::Null) => Ok(None)
//@end

/// C28: list.separator — comma / slash / space; maps and argument lists act
/// as comma lists, an empty map and every non-list as a space list.
#[kani::proof]
#[kani::unwind(8)]
fn c28_separator_name() {
    let b: bool = kani::any();
    assert!(snippet_separator(Value::List(vec![], Some(ListSeparator::Comma), b)) == "comma");
    assert!(snippet_separator(Value::List(vec![], Some(ListSeparator::Slash), b)) == "slash");
    assert!(snippet_separator(Value::List(vec![], Some(ListSeparator::Space), b)) == "space");
    assert!(snippet_separator(Value::List(vec![], None, b)) == "space");
    assert!(snippet_separator(Value::Map(Default::default())) == "space", "an empty map is an empty (space) list");
    assert!(snippet_separator(Value::True) == "space", "a single value is a space list");
    assert!(snippet_separator(Value::Null) == "space");
}
/// C28: list.index gives the first 1-based position of an `==` element, or
/// null.  Lists of N elements (concrete N: a symbolic length makes the
/// allocation size symbolic), all element values.
fn index_law<const N: usize>() {
    let e: [u8; N] = kani::any();
    let x: u8 = kani::any();
    let got = snippet_list_index(e.to_vec(), x);
    let mut want = None;
    let mut k = N;
    while k > 0 {
        k -= 1;
        if e[k] == x {
            want = Some(k + 1);
        }
    }
    assert!(got == Ok(want), "index: first 1-based position of an == element, null when absent");
}
#[kani::proof]
#[kani::unwind(6)]
fn c28_index_first_position_n0() {
    index_law::<0>()
}
#[kani::proof]
#[kani::unwind(6)]
fn c28_index_first_position_n2() {
    index_law::<2>()
}
#[kani::proof]
#[kani::unwind(6)]
fn c28_index_first_position_n4() {
    index_law::<4>()
}

// ---- whole closures (bounded): complete bodies of list.join, append and
// set-nth, extracted each run with the argument fetches replaced by
// parameters.  The element type is instantiated at u8 (a Vec<css::Value>
// makes CBMC run out of memory): listed substitutions `get_list(` ->
// `parts(` (destructures the harness's list type; get_list itself is
// c28_get_list_shape) and `Value::List(` -> `L::new(`.  Separator, brackets
// and the `$bracketed` argument (a real css::Value) are as in the source. ----
#[derive(Clone)]
struct L {
    items: Vec<u8>,
    sep: Option<ListSeparator>,
    bra: bool,
}
impl L {
    fn new(items: Vec<u8>, sep: Option<ListSeparator>, bra: bool) -> Self {
        Self { items, sep, bra }
    }
}
fn parts(l: L) -> (Vec<u8>, Option<ListSeparator>, bool) {
    (l.items, l.sep, l.bra)
}

//@range file=rsass/src/sass/functions/list.rs fn=create_module after="join(list1, list2, separator = b\"auto\", bracketed = b\"auto\"),\n        |s| {" until="\n        }\n    );"
//@  header: fn snippet_join(list1_arg: L, list2_arg: L, separator_arg: Option<ListSeparator>, bracketed_arg: Value) -> Result<L, ()>
//@  subst: get_list( => parts(
//@  subst: Value::List( => L::new(
//@  subst: s.get(name!(list1))? => list1_arg
//@  subst: s.get(name!(list2))? => list2_arg
//@  subst: s\n                .get_map(name!(separator), check_separator)? => separator_arg
//@  subst: s.get(name!(bracketed))? => bracketed_arg
//@end

//@range file=rsass/src/sass/functions/list.rs fn=create_module after="def!(f, append(list, val, separator = b\"auto\"), |s| {" until="\n    });"
//@  header: fn snippet_append(list_arg: L, val_arg: u8, separator_arg: Option<ListSeparator>) -> Result<L, ()>
//@  subst: get_list( => parts(
//@  subst: Value::List( => L::new(
//@  subst: s.get(name!(list))? => list_arg
//@  subst: s\n            .get_map(name!(separator), check_separator)? => separator_arg
//@  subst: s.get(name!(val))? => val_arg
//@end

//@range file=rsass/src/sass/functions/list.rs fn=create_module after="def!(f, set_nth(list, n, value), |s| {" until="\n    });"
//@  header: fn snippet_set_nth(list_arg: L, n_arg: Value, value_arg: u8) -> Result<L, ()>
//@  subst: get_list( => parts(
//@  subst: Value::List( => L::new(
//@  subst: s.get(name!(list))? => list_arg
//@  subst: s.get_map(name!(n), |v| index_of(v, list.len()))? => index_of(n_arg, list.len()).unwrap()
//@  subst: s.get(name!(value))? => value_arg
//@end

fn auto() -> Value {
    Value::Literal(crate::css::CssString::new(String::from("auto"), crate::value::Quotes::None))
}
/// C28: join concatenates the elements in order, takes the separator from
/// the explicit argument or else the first list that has one, and the
/// brackets from the explicit argument or else the FIRST list.
#[kani::proof]
#[kani::unwind(6)]
fn c28_join_concatenates() {
    let (s1, s2, e) = (any_sep(), any_sep(), any_sep());
    let (b1, b2): (bool, bool) = (kani::any(), kani::any());
    let (x, y, z): (u8, u8, u8) = (kani::any(), kani::any(), kani::any());
    match snippet_join(L::new(vec![x], s1, b1), L::new(vec![y, z], s2, b2), e, auto()) {
        Ok(r) => {
            assert!(r.items.len() == 3 && r.items[0] == x && r.items[1] == y && r.items[2] == z, "join: elements of both lists, in order");
            assert!(r.sep == Some(e.or(s1).or(s2).unwrap_or(ListSeparator::Space)), "join: separator choice");
            assert!(r.bra == b1, "join: brackets of the first list when $bracketed is auto");
        }
        Err(_) => assert!(false, "join gives a list"),
    }
}
/// C28: an explicit $bracketed decides by truthiness, whatever the lists have.
#[kani::proof]
#[kani::unwind(6)]
fn c28_join_bracketed_explicit() {
    let (b1, b2): (bool, bool) = (kani::any(), kani::any());
    let l = |b| L::new(vec![1], None, b);
    assert!(matches!(snippet_join(l(b1), l(b2), None, Value::True), Ok(ref r) if r.bra), "join: $bracketed: true");
    assert!(matches!(snippet_join(l(b1), l(b2), None, Value::False), Ok(ref r) if !r.bra), "join: $bracketed: false");
    assert!(matches!(snippet_join(l(b1), l(b2), None, Value::Null), Ok(ref r) if !r.bra), "join: $bracketed: null is falsey");
}
#[kani::proof]
#[kani::unwind(6)]
fn c28_join_empty_first_list_does_not_take_brackets_of_second() {
    let s2 = any_sep();
    match snippet_join(L::new(vec![], None, false), L::new(vec![7], s2, true), None, auto()) {
        Ok(r) => {
            assert!(r.items.len() == 1 && !r.bra, "join((), [c]): brackets come from the first list only");
            assert!(r.sep == Some(s2.unwrap_or(ListSeparator::Space)));
        }
        Err(_) => assert!(false, "join gives a list"),
    }
}
/// C28: append adds the value at the end, keeps brackets, separator from
/// the explicit argument, else the list's, else space.
#[kani::proof]
#[kani::unwind(6)]
fn c28_append_adds_at_end() {
    let (s1, e) = (any_sep(), any_sep());
    let b1: bool = kani::any();
    let (x, y, z): (u8, u8, u8) = (kani::any(), kani::any(), kani::any());
    match snippet_append(L::new(vec![x, y], s1, b1), z, e) {
        Ok(r) => {
            assert!(r.items.len() == 3 && r.items[0] == x && r.items[1] == y && r.items[2] == z, "append: the value goes last, the rest is unchanged");
            assert!(r.sep == Some(e.or(s1).unwrap_or(ListSeparator::Space)) && r.bra == b1, "append: separator choice, brackets kept");
        }
        Err(_) => assert!(false, "append gives a list"),
    }
}
/// C28: set-nth changes only the addressed element; separator (also an
/// undecided one) and brackets stay.
#[kani::proof]
#[kani::stub(std::fmt::format, format_stub)]
#[kani::unwind(6)]
fn c28_set_nth_changes_only_addressed_element() {
    let s1 = any_sep();
    let b1: bool = kani::any();
    let (x, y, z, v): (u8, u8, u8, u8) = (kani::any(), kani::any(), kani::any(), kani::any());
    let n: i64 = if kani::any() { 2 } else { -2 };
    match snippet_set_nth(L::new(vec![x, y, z], s1, b1), Value::scalar(n), v) {
        Ok(r) => {
            assert!(r.items.len() == 3 && r.items[0] == x && r.items[1] == v && r.items[2] == z, "set-nth(l, 2, v) / set-nth(l, -2, v): only the second of three elements changes");
            assert!(r.sep == s1 && r.bra == b1, "set-nth keeps separator (decided or not) and brackets");
        }
        Err(_) => assert!(false, "set-nth gives a list"),
    }
}

// ---- list.index, complete body, at a mock value type.  The closure is a
// `match` over css::Value (list / map / anything else); a css::Value inside
// a Vec or OrderMap is out of CBMC's reach, so inside this module `Value`
// is a small enum with the SAME constructors the range uses (List, Map,
// Null, scalar(), ==) over u8 elements: listed abstraction.  OrderMap and
// ListSeparator are the real ones. ----
mod index_at_mock {
    use crate::ordermap::OrderMap;
    use crate::value::ListSeparator;
    /// (elements are plain u8: a recursive mock — lists of values — is out of
    /// CBMC's reach as well)
    #[derive(Clone, PartialEq, Debug)]
    pub(super) enum Value {
        List(Vec<u8>, Option<ListSeparator>, bool),
        Map(OrderMap<u8, u8>),
        Null,
        Atom(u8),
        Position(usize),
    }
    impl Value {
        pub(super) fn scalar(n: usize) -> Self {
            Value::Position(n)
        }
    }
    /// an element of a list is == to a value when the value is that atom
    impl PartialEq<Value> for u8 {
        fn eq(&self, o: &Value) -> bool {
            matches!(o, Value::Atom(x) if x == self)
        }
    }
//@range file=rsass/src/sass/functions/list.rs fn=create_module after="def!(f, index(list, value), |s| " until=");\n    def!(f, is_bracketed"
//@  header: pub(super) fn snippet_index_body(list_arg: Value, value_arg: Value) -> Result<Value, ()>
//@  subst: s.get(name!(list))? => list_arg
//@  resubst: s\.get\(name!\(value\)\)\? => value_arg.clone()
//@end
}
use index_at_mock::Value as MV;

/// C28: maps act as lists of key/value pairs: list.index finds the entry
/// whose key and value are == to a SPACE-separated two-element list, and
/// only that — `(k, v)` and `k / v` are different values from `(k v)`.
#[kani::proof]
#[kani::unwind(6)]
fn c28_index_in_map_matches_space_pairs_only() {
    let map = || {
        let mut m = crate::ordermap::OrderMap::new();
        m.insert(1u8, 2u8);
        m.insert(3u8, 4u8);
        MV::Map(m)
    };
    let pair = |sep| MV::List(vec![3, 4], sep, false);
    assert!(index_at_mock::snippet_index_body(map(), pair(Some(ListSeparator::Space))) == Ok(MV::Position(2)), "index(map, (k v)) is the entry's position");
    assert!(index_at_mock::snippet_index_body(map(), pair(Some(ListSeparator::Comma))) == Ok(MV::Null), "(k, v) is not == to the pair (k v)");
    assert!(index_at_mock::snippet_index_body(map(), pair(Some(ListSeparator::Slash))) == Ok(MV::Null), "k / v is not == to the pair (k v)");
}
/// C28: … and in a plain list, index gives the first == position; a
/// non-list value acts as a one-element list.
#[kani::proof]
#[kani::unwind(6)]
fn c28_index_whole_body_on_lists() {
    let l = MV::List(vec![5, 7, 5], Some(ListSeparator::Comma), false);
    assert!(index_at_mock::snippet_index_body(l.clone(), MV::Atom(5)) == Ok(MV::Position(1)), "index: FIRST position");
    assert!(index_at_mock::snippet_index_body(l.clone(), MV::Atom(7)) == Ok(MV::Position(2)));
    assert!(index_at_mock::snippet_index_body(l, MV::Atom(9)) == Ok(MV::Null), "index: null when absent");
    assert!(index_at_mock::snippet_index_body(MV::Atom(9), MV::Atom(9)) == Ok(MV::Position(1)), "a single value is a one-element list");
    assert!(index_at_mock::snippet_index_body(MV::Atom(9), MV::Atom(8)) == Ok(MV::Null));
}
