//! Proof harnesses for rsass/src/sass/functions/list.rs — unit U-index (C28).
use super::*;

/// `format!` on the error paths costs CBMC minutes per call; the error TEXT
/// is not part of the contract (error PRESENCE is), so it is stubbed.
fn format_stub(_args: std::fmt::Arguments<'_>) -> String {
    String::new()
}

/// C28: nth / set-nth accept 1..n and -n..-1 and nothing else; the result is
/// the 0-based position (so `list[n]` in the callers is in bounds).
/// All doubles, all lengths up to 2^40.
#[kani::proof]
#[kani::stub(std::fmt::format, format_stub)]
#[kani::unwind(3)]
fn c28_index_of() {
    let x: f64 = kani::any();
    let len: usize = kani::any();
    kani::assume(len <= (1usize << 40));
    let r = index_of(Value::scalar(x), len);
    let n = x.round();
    let is_int = (n - x).abs() <= f64::from(f32::EPSILON);
    let l = len as f64;
    match r {
        Ok(i) => {
            assert!(i < len, "index_of: result in bounds");
            assert!(is_int, "index_of: only integers are indices");
            assert!((n >= 1.0 && n <= l && i as f64 == n - 1.0) || (n <= -1.0 && n >= -l && i as f64 == l + n),
                "index_of: 1..n maps to n-1, -n..-1 counts from the end");
        }
        Err(_) => {
            assert!(!is_int || n == 0.0 || n > l || n < -l, "index_of: every index in 1..n / -n..-1 is accepted");
        }
    }
}

/// C28: `get_list` — a list is taken apart unchanged (elements, order,
/// separator, brackets); any other value is a singleton list without
/// separator; an empty map is the empty list.
#[kani::proof]
#[kani::unwind(4)]
fn c28_get_list_shape() {
    let n: u8 = kani::any();
    kani::assume(n <= 2);
    let (x, y): (f64, f64) = (kani::any(), kani::any());
    kani::assume(!x.is_nan() && !y.is_nan());
    let mut items = Vec::new();
    if n >= 1 {
        items.push(Value::scalar(x));
    }
    if n >= 2 {
        items.push(Value::scalar(y));
    }
    let sep = match kani::any::<u8>() % 4 {
        0 => None,
        1 => Some(ListSeparator::Space),
        2 => Some(ListSeparator::Comma),
        _ => Some(ListSeparator::Slash),
    };
    let bra: bool = kani::any();
    let (v, s, b) = get_list(Value::List(items, sep, bra));
    assert!(v.len() == usize::from(n) && s == sep && b == bra, "list: separator and brackets kept");
    if n >= 1 {
        assert!(v[0] == Value::scalar(x));
    }
    if n >= 2 {
        assert!(v[1] == Value::scalar(y), "list: elements and order kept");
    }
    // singleton
    let (v, s, b) = get_list(Value::scalar(x));
    assert!(v.len() == 1 && v[0] == Value::scalar(x) && s.is_none() && !b, "a non-list is a singleton list");
    let (v, s, b) = get_list(Value::Map(Default::default()));
    assert!(v.is_empty() && s.is_none() && !b, "empty map is the empty list");
}
