//! Proof harnesses for rsass/src/sass/functions/list.rs — unit U-index (C28).
use super::*;

/// `format!` on the error paths costs CBMC minutes per call; the error TEXT
/// is not part of the contract (error PRESENCE is), so it is stubbed.
fn format_stub(_args: std::fmt::Arguments<'_>) -> String {
    String::new()
}

/// C28: nth / set-nth accept 1..n and -n..-1 and nothing else; the result is
/// the 0-based position (so `list[n]` in the callers is in bounds).
/// All doubles, all lengths up to 2^40.
#[kani::proof]
#[kani::stub(std::fmt::format, format_stub)]
#[kani::unwind(3)]
fn c28_index_of() {
    let x: f64 = kani::any();
    let len: usize = kani::any();
    kani::assume(len <= (1usize << 40));
    let r = index_of(Value::scalar(x), len);
    let n = x.round();
    let is_int = (n - x).abs() <= f64::from(f32::EPSILON);
    let l = len as f64;
    match r {
        Ok(i) => {
            assert!(i < len, "index_of: result in bounds");
            assert!(is_int, "index_of: only integers are indices");
            assert!((n >= 1.0 && n <= l && i as f64 == n - 1.0) || (n <= -1.0 && n >= -l && i as f64 == l + n),
                "index_of: 1..n maps to n-1, -n..-1 counts from the end");
        }
        Err(_) => {
            assert!(!is_int || n == 0.0 || n > l || n < -l, "index_of: every index in 1..n / -n..-1 is accepted");
        }
    }
}

/// C28: `get_list` — a list is taken apart unchanged (elements, order,
/// separator, brackets); any other value is a singleton list without
/// separator; an empty map is the empty list.
#[kani::proof]
#[kani::unwind(4)]
fn c28_get_list_shape() {
    let n: u8 = kani::any();
    kani::assume(n <= 2);
    let (x, y): (f64, f64) = (kani::any(), kani::any());
    kani::assume(!x.is_nan() && !y.is_nan());
    let mut items = Vec::new();
    if n >= 1 {
        items.push(Value::scalar(x));
    }
    if n >= 2 {
        items.push(Value::scalar(y));
    }
    let sep = match kani::any::<u8>() % 4 {
        0 => None,
        1 => Some(ListSeparator::Space),
        2 => Some(ListSeparator::Comma),
        _ => Some(ListSeparator::Slash),
    };
    let bra: bool = kani::any();
    let (v, s, b) = get_list(Value::List(items, sep, bra));
    assert!(v.len() == usize::from(n) && s == sep && b == bra, "list: separator and brackets kept");
    if n >= 1 {
        assert!(v[0] == Value::scalar(x));
    }
    if n >= 2 {
        assert!(v[1] == Value::scalar(y), "list: elements and order kept");
    }
    // singleton
    let (v, s, b) = get_list(Value::scalar(x));
    assert!(v.len() == 1 && v[0] == Value::scalar(x) && s.is_none() && !b, "a non-list is a singleton list");
    let (v, s, b) = get_list(Value::Map(Default::default()));
    assert!(v.is_empty() && s.is_none() && !b, "empty map is the empty list");
}

// ---- K-snippet part (C28): separator / bracket selection of append and
// join, list.index, zip's length, list.separator.  The Sass functions are
// closures inside `create_module`; the statement ranges below are cut out of
// /repo's current source on every run (tools/extract.py) and wrapped in
// functions of their free variables; argument fetches (`s.get…`) are
// replaced by parameters (listed substitutions). ----

//@range file=rsass/src/sass/functions/list.rs fn=create_module from="let sep = s\n                .get_map(name!(separator), check_separator)?\n                .or(sep1)" until="list1.append(&mut list2);"
//@  header: fn snippet_join_sep(explicit: Option<ListSeparator>, sep1: Option<ListSeparator>, sep2: Option<ListSeparator>) -> ListSeparator
//@  subst: s\n                .get_map(name!(separator), check_separator)? => explicit
//@  tail: sep
//@end

//@range file=rsass/src/sass/functions/list.rs fn=create_module from="let bra = match s.get(name!(bracketed))? {" until="Ok(Value::List(list1, Some(sep), bra))"
//@  header: fn snippet_join_bracketed(bracketed: Value, bra1: bool) -> bool
//@  subst: s.get(name!(bracketed))? => bracketed
//@  tail: bra
//@end

//@range file=rsass/src/sass/functions/list.rs fn=create_module from="let sep = s\n            .get_map(name!(separator), check_separator)?\n            .or(sep)" until="list.push(s.get(name!(val))?);"
//@  header: fn snippet_append_sep(explicit: Option<ListSeparator>, sep: Option<ListSeparator>) -> ListSeparator
//@  subst: s\n            .get_map(name!(separator), check_separator)? => explicit
//@  tail: sep
//@end

//@range file=rsass/src/sass/functions/list.rs fn=create_module from="let len = lists.iter().map(Vec::len).min().unwrap_or(0);" until="let result = (0..len)"
//@  header: fn snippet_zip_len(lists: &Vec<Vec<u8>>) -> usize
//@  tail: len
//@end

fn any_sep() -> Option<ListSeparator> {
    match kani::any::<u8>() % 4 {
        0 => None,
        1 => Some(ListSeparator::Space),
        2 => Some(ListSeparator::Comma),
        _ => Some(ListSeparator::Slash),
    }
}

/// C28: join takes the separator from the explicit argument, else from the
/// first list that has one, else space.  All 4 x 4 x 4 combinations.
#[kani::proof]
fn c28_join_separator_choice() {
    let (e, s1, s2) = (any_sep(), any_sep(), any_sep());
    let r = snippet_join_sep(e, s1, s2);
    let want = match (e, s1, s2) {
        (Some(x), _, _) => x,
        (None, Some(x), _) => x,
        (None, None, Some(x)) => x,
        (None, None, None) => ListSeparator::Space,
    };
    assert!(r == want, "join: explicit separator, else the first list that has one, else space");
}
/// C28: append takes the separator from the explicit argument, else from
/// the list, else space.
#[kani::proof]
fn c28_append_separator_choice() {
    let (e, s1) = (any_sep(), any_sep());
    let r = snippet_append_sep(e, s1);
    let want = match (e, s1) {
        (Some(x), _) => x,
        (None, Some(x)) => x,
        (None, None) => ListSeparator::Space,
    };
    assert!(r == want, "append: explicit separator, else the list's, else space");
}
/// C28: join takes the brackets from the explicit argument (by truthiness),
/// or from the first list when it is `auto`.
#[kani::proof]
#[kani::unwind(6)]
fn c28_join_bracketed_choice() {
    let bra1: bool = kani::any();
    let auto = Value::Literal(crate::css::CssString::new(String::from("auto"), crate::value::Quotes::None));
    assert!(snippet_join_bracketed(auto, bra1) == bra1, "join: bracketed auto takes the first list's brackets");
    assert!(snippet_join_bracketed(Value::True, bra1), "join: bracketed true");
    assert!(!snippet_join_bracketed(Value::False, bra1), "join: bracketed false");
    assert!(!snippet_join_bracketed(Value::Null, bra1), "join: bracketed null is falsey");
}
/// C28: zip truncates to the shortest list (0 lists: length 0).
#[kani::proof]
#[kani::unwind(5)]
fn c28_zip_truncates_to_shortest() {
    let (a, b, c): (usize, usize, usize) = (kani::any(), kani::any(), kani::any());
    kani::assume(a <= 3 && b <= 3 && c <= 3);
    let lists = vec![vec![0u8; a], vec![0u8; b], vec![0u8; c]];
    let r = snippet_zip_len(&lists);
    assert!(r <= a && r <= b && r <= c && (r == a || r == b || r == c), "zip: length of the shortest list");
    assert!(snippet_zip_len(&Vec::new()) == 0, "zip of nothing is empty");
}

//@range file=rsass/src/sass/functions/list.rs fn=create_module from="let sep = match s.get(name!(list))? {" until="Ok(sep.into())"
//@  header: fn snippet_separator(list: Value) -> &'static str
//@  subst: s.get(name!(list))? => list
//@  tail: sep
//@end

//@range file=rsass/src/sass/functions/list.rs fn=create_module from="for (i, v) in v.iter().enumerate() {" until="\n        }\n"
//@  header: fn snippet_list_index(v: Vec<Value>, value: Value) -> Result<Value, CallError>
//@end

/// C28: list.separator — comma / slash / space; maps and argument lists act
/// as comma lists, an empty map and every non-list as a space list.
#[kani::proof]
#[kani::unwind(8)]
fn c28_separator_name() {
    let b: bool = kani::any();
    assert!(snippet_separator(Value::List(vec![], Some(ListSeparator::Comma), b)) == "comma");
    assert!(snippet_separator(Value::List(vec![], Some(ListSeparator::Slash), b)) == "slash");
    assert!(snippet_separator(Value::List(vec![], Some(ListSeparator::Space), b)) == "space");
    assert!(snippet_separator(Value::List(vec![], None, b)) == "space");
    assert!(snippet_separator(Value::Map(Default::default())) == "space", "an empty map is an empty (space) list");
    assert!(snippet_separator(Value::True) == "space", "a single value is a space list");
    assert!(snippet_separator(Value::Null) == "space");
}
fn pos_of(r: Result<Value, CallError>) -> Option<i64> {
    match r {
        Ok(Value::Null) => None,
        Ok(Value::Numeric(n, _)) => n.value.into_integer().ok(),
        _ => {
            assert!(false, "list.index returns a number or null");
            None
        }
    }
}
/// C28: list.index gives the first 1-based position of an `==` element, or
/// null.  One call per harness (a Vec<Value> plus its drop glue is about as
/// much as CBMC takes).
macro_rules! index_case {
    ($name:ident, $list:expr, $value:expr, $want:expr) => {
        #[kani::proof]
        #[kani::unwind(4)]
        fn $name() {
            assert!(pos_of(snippet_list_index($list, $value)) == $want, "index: first 1-based position of an == element, null when absent");
        }
    };
}
index_case!(c28_index_first_of_equal_elements, vec![Value::Null, Value::Null], Value::Null, Some(1));
index_case!(c28_index_second_position, vec![Value::False, Value::True], Value::True, Some(2));
index_case!(c28_index_absent_is_null, vec![Value::False], Value::True, None);
index_case!(c28_index_empty_list, Vec::new(), Value::True, None);
