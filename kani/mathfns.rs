//! K-snippet unit U-mathfns (C29): math.ceil / floor / round / percentage
//! keep the unit and apply the primitive (closures and `sass_round`,
//! statement ranges extracted from /repo each run by tools/extract.py;
//! argument fetches replaced by parameters), and `find_extreme`, the fold
//! behind math.min / math.max, called directly.  The primitives themselves
//! (Number::ceil, floor, round, abs) are under contract in number.rs.
use super::*;
use crate::value::UnitSet;

//@range file=rsass/src/sass/functions/math.rs fn=create_module after="def!(f, ceil(number), |s| {\n        let val: Numeric = s.get(name!(number))?;" until="});"
//@  header: fn snippet_math_ceil(val: Numeric) -> Result<Value, CallError>
//@end

//@range file=rsass/src/sass/functions/math.rs fn=create_module after="def!(f, floor(number), |s| {\n        let val: Numeric = s.get(name!(number))?;" until="});"
//@  header: fn snippet_math_floor(val: Numeric) -> Result<Value, CallError>
//@end

//@range file=rsass/src/sass/functions/math/round.rs fn=sass_round after="let val: Numeric = s.get(name!(number))?;"
//@  header: fn snippet_math_round(val: Numeric) -> Result<Value, CallError>
//@end

//@range file=rsass/src/sass/functions/math.rs fn=create_module after="def!(f, percentage(number), |s| {\n        let val = s.get_map(name!(number), check::unitless)?;" until="});"
//@  header: fn snippet_math_percentage(val: crate::value::Number) -> Result<Value, CallError>
//@end

fn parts(r: Result<Value, CallError>) -> (f64, UnitSet) {
    match r {
        Ok(Value::Numeric(n, _)) => (f64::from(n.value.clone()), n.unit.clone()),
        _ => {
            assert!(false, "the function returns a number");
            unreachable!()
        }
    }
}

/// C29: ceil / floor / round keep the unit and return the specified integer.
#[kani::proof]
#[kani::unwind(4)]
fn c29_ceil_floor_round_keep_unit() {
    let x: f64 = kani::any();
    kani::assume(x.is_finite());
    let px = || UnitSet::from(Unit::Px);
    let (c, cu) = parts(snippet_math_ceil(Numeric::new(x, px())));
    assert!(cu == px() && c == c.trunc() && c >= x && (c == x || c - 1.0 < x), "math.ceil: least integer >= x, unit kept");
    let (f, fu) = parts(snippet_math_floor(Numeric::new(x, px())));
    assert!(fu == px() && f == f.trunc() && f <= x && (f == x || f + 1.0 > x), "math.floor: greatest integer <= x, unit kept");
    let (r, ru) = parts(snippet_math_round(Numeric::new(x, px())));
    assert!(ru == px() && r == r.trunc() && (r - x).abs() <= 0.5, "math.round: nearest integer, unit kept");
}
/// C29: percentage multiplies by 100%.
#[kani::proof]
#[kani::unwind(4)]
fn c29_percentage_times_100() {
    let x: f64 = kani::any();
    kani::assume(x.is_finite());
    let (p, u) = parts(snippet_math_percentage(crate::value::Number::from(x)));
    assert!(u == UnitSet::from(Unit::Percent) && p == x * 100.0, "math.percentage: x * 100 with unit %");
}

fn nos(v: f64, u: Unit) -> NumOrSpecial {
    NumOrSpecial::Num(Numeric::new(v, UnitSet::from(u)))
}
fn extreme(v: &[NumOrSpecial], pref: Ordering) -> Option<(f64, UnitSet)> {
    match find_extreme(v, pref) {
        Ok(Some(n)) => Some((f64::from(n.value.clone()), n.unit.clone())),
        Ok(None) => None,
        Err(_) => {
            assert!(false, "compatible units are not an error");
            None
        }
    }
}
/// C29: min / max return one of their arguments, chosen after unit
/// conversion (1in = 96px), in the argument's own unit.
#[kani::proof]
#[kani::unwind(5)]
fn c29_min_max_after_unit_conversion() {
    let v = [nos(90.0, Unit::Px), nos(1.0, Unit::In), nos(95.0, Unit::Px)];
    assert!(extreme(&v, Ordering::Greater) == Some((1.0, UnitSet::from(Unit::In))), "max: 1in (= 96px) is the largest, returned as given");
    assert!(extreme(&v, Ordering::Less) == Some((90.0, UnitSet::from(Unit::Px))), "min: 90px is the smallest");
    let w = [nos(2.0, Unit::None), nos(3.0, Unit::None)];
    assert!(extreme(&w, Ordering::Greater) == Some((3.0, UnitSet::scalar())));
    assert!(extreme(&w, Ordering::Less) == Some((2.0, UnitSet::scalar())));
}
/// C29: incompatible units are an error.
#[kani::proof]
#[kani::unwind(5)]
fn c29_min_max_incompatible_units() {
    let v = [nos(1.0, Unit::Px), nos(1.0, Unit::S)];
    assert!(matches!(find_extreme(&v, Ordering::Greater), Err(_)), "max(1px, 1s): incompatible units are an error");
}

#[kani::proof]
fn cover_mathfns() {
    let x: f64 = kani::any();
    kani::cover!(x.is_finite() && x != x.trunc());
}
