//! K-snippet unit U-mathfns (C29): math.ceil / floor / round / percentage
//! keep the unit and apply the primitive (closures and `sass_round`,
//! statement ranges extracted from /repo each run by tools/extract.py;
//! argument fetches replaced by parameters), and `find_extreme`, the fold
//! behind math.min / math.max, called directly.  The primitives themselves
//! (Number::ceil, floor, round, abs) are under contract in number.rs.
use super::*;
use crate::value::UnitSet;

//@range file=rsass/src/sass/functions/math.rs fn=create_module after="def!(f, ceil(number), |s| {\n        let val: Numeric = s.get(name!(number))?;" until="});"
//@  header: fn snippet_math_ceil(val: Numeric) -> Result<Value, CallError>
//@end

//@range file=rsass/src/sass/functions/math.rs fn=create_module after="def!(f, floor(number), |s| {\n        let val: Numeric = s.get(name!(number))?;" until="});"
//@  header: fn snippet_math_floor(val: Numeric) -> Result<Value, CallError>
//@end

//@range file=rsass/src/sass/functions/math/round.rs fn=sass_round after="let val: Numeric = s.get(name!(number))?;"
//@  header: fn snippet_math_round(val: Numeric) -> Result<Value, CallError>
//@end

//@range file=rsass/src/sass/functions/math.rs fn=create_module after="def!(f, percentage(number), |s| {\n        let val = s.get_map(name!(number), check::unitless)?;" until="});"
//@  header: fn snippet_math_percentage(val: crate::value::Number) -> Result<Value, CallError>
//@end

fn parts(r: Result<Value, CallError>) -> (f64, UnitSet) {
    match r {
        Ok(Value::Numeric(n, _)) => (f64::from(n.value.clone()), n.unit.clone()),
        _ => {
            assert!(false, "the function returns a number");
            unreachable!()
        }
    }
}

/// C29: the closures of ceil / floor / round apply the right primitive and
/// keep the unit.  Probe values 2.5, -2.5, 7 (the primitives themselves are
/// under contract for ALL doubles in number.rs; a symbolic double through
/// Numeric -> Value here exhausts CBMC's memory).
fn probe() -> f64 {
    match kani::any::<u8>() % 3 {
        0 => 2.5,
        1 => -2.5,
        _ => 7.0,
    }
}
#[kani::proof]
#[kani::unwind(4)]
fn c29_ceil_keeps_unit() {
    let x = probe();
    let px = || UnitSet::from(Unit::Px);
    let (c, cu) = parts(snippet_math_ceil(Numeric::new(x, px())));
    assert!(cu == px(), "math.ceil keeps the unit");
    assert!(c == if x == 2.5 { 3.0 } else if x == -2.5 { -2.0 } else { 7.0 }, "math.ceil rounds up");
}
#[kani::proof]
#[kani::unwind(4)]
fn c29_floor_keeps_unit() {
    let x = probe();
    let px = || UnitSet::from(Unit::Px);
    let (f, fu) = parts(snippet_math_floor(Numeric::new(x, px())));
    assert!(fu == px(), "math.floor keeps the unit");
    assert!(f == if x == 2.5 { 2.0 } else if x == -2.5 { -3.0 } else { 7.0 }, "math.floor rounds down");
}
#[kani::proof]
#[kani::unwind(4)]
fn c29_round_keeps_unit() {
    let x = probe();
    let px = || UnitSet::from(Unit::Px);
    let (r, ru) = parts(snippet_math_round(Numeric::new(x, px())));
    assert!(ru == px(), "math.round keeps the unit");
    assert!(r == if x == 2.5 { 3.0 } else if x == -2.5 { -3.0 } else { 7.0 }, "math.round: nearest, halves away from zero");
}
/// C29: percentage multiplies by 100% (probe values: two full-range f64
/// multipliers exhaust CBMC's memory).
#[kani::proof]
#[kani::unwind(4)]
fn c29_percentage_times_100() {
    let x = match kani::any::<u8>() % 4 {
        0 => 0.5,
        1 => -1.25,
        2 => 3.0,
        _ => 0.0,
    };
    let (p, u) = parts(snippet_math_percentage(crate::value::Number::from(x)));
    assert!(u == UnitSet::from(Unit::Percent) && p == x * 100.0, "math.percentage: x * 100 with unit %");
}

fn nos(v: f64, u: Unit) -> NumOrSpecial {
    NumOrSpecial::Num(Numeric::new(v, UnitSet::from(u)))
}
fn extreme(v: &[NumOrSpecial], pref: Ordering) -> Option<(f64, UnitSet)> {
    match find_extreme(v, pref) {
        Ok(Some(n)) => Some((f64::from(n.value.clone()), n.unit.clone())),
        Ok(None) => None,
        Err(_) => {
            assert!(false, "compatible units are not an error");
            None
        }
    }
}
/// C29: min / max return one of their arguments, chosen after unit
/// conversion (1in = 96px), in the argument's own unit.
#[kani::proof]
#[kani::unwind(5)]
fn c29_min_max_after_unit_conversion() {
    let v = [nos(90.0, Unit::Px), nos(1.0, Unit::In), nos(95.0, Unit::Px)];
    assert!(extreme(&v, Ordering::Greater) == Some((1.0, UnitSet::from(Unit::In))), "max: 1in (= 96px) is the largest, returned as given");
    assert!(extreme(&v, Ordering::Less) == Some((90.0, UnitSet::from(Unit::Px))), "min: 90px is the smallest");
    let w = [nos(2.0, Unit::None), nos(3.0, Unit::None)];
    assert!(extreme(&w, Ordering::Greater) == Some((3.0, UnitSet::scalar())));
    assert!(extreme(&w, Ordering::Less) == Some((2.0, UnitSet::scalar())));
}
/// C29: min / max return one of their arguments also when a unitless
/// argument ties with one that has a unit (1 and 1px compare equal).
#[kani::proof]
#[kani::unwind(5)]
fn c29_min_max_tie_between_unitless_and_unit() {
    let v = [nos(1.0, Unit::Px), nos(1.0, Unit::None)];
    let r = extreme(&v, Ordering::Greater);
    assert!(r == Some((1.0, UnitSet::from(Unit::Px))) || r == Some((1.0, UnitSet::scalar())), "max(1px, 1) is one of its arguments");
    let w = [nos(1.0, Unit::Px), nos(1.0, Unit::None), nos(7.0, Unit::Px)];
    assert!(extreme(&w, Ordering::Greater) == Some((7.0, UnitSet::from(Unit::Px))), "max(1px, 1, 7px) is 7px");
}
fn fmt_stub(_a: std::fmt::Arguments<'_>) -> String {
    String::new()
}
/// C29: pow / sqrt / log / exp require unitless input — `%` and `fr` are
/// units too.  One harness per unit.
macro_rules! unitless_case {
    ($name:ident, $unit:expr, $ok:expr) => {
        #[kani::proof]
        #[kani::stub(alloc::fmt::format, fmt_stub)]
        #[kani::unwind(5)]
        fn $name() {
            let r = unitless(Value::Numeric(Numeric::new(25.0, UnitSet::from($unit)), false));
            if $ok {
                assert!(r == Ok(25.0), "a unitless number is accepted");
            } else {
                assert!(r.is_err(), "a number with a unit (also % and fr) is rejected");
            }
        }
    };
}
unitless_case!(c29_unitless_accepts_plain_number, Unit::None, true);
unitless_case!(c29_unitless_rejects_percent, Unit::Percent, false);
unitless_case!(c29_unitless_rejects_fr, Unit::Fr, false);
unitless_case!(c29_unitless_rejects_px, Unit::Px, false);
/// C29: incompatible units are an error.
#[kani::proof]
#[kani::unwind(5)]
fn c29_min_max_incompatible_units() {
    let v = [nos(1.0, Unit::Px), nos(1.0, Unit::S)];
    assert!(matches!(find_extreme(&v, Ordering::Greater), Err(_)), "max(1px, 1s): incompatible units are an error");
}

#[kani::proof]
fn cover_mathfns() {
    let x: f64 = kani::any();
    kani::cover!(x.is_finite() && x != x.trunc());
}

// ---- math.clamp at a cheap number type: the complete closure body is
// extracted with the argument fetches replaced (listed regex substitutions:
// `s.get::<Numeric>(name!(min))?` -> the parameter, `s.get_map(name!(x),
// check_numeric_compat_unit)?` -> the closure's own check applied to the
// harness's value); inside this module `Numeric` and `Value` are stand-ins
// (a double with a unit tag, compared by value when the units agree), so
// the closure's comparisons, its compatibility check and the order in which
// it applies the bounds are checked for ALL doubles.  What Numeric's real
// comparison does with different units is under contract in numeric.rs. ----
pub(crate) mod clampmock {
    /// error stand-in (the real CallError drags the whole error type's drop
    /// glue into CBMC)
    pub struct CallError;
    impl CallError {
        pub fn msg<T>(_m: T) -> CallError {
            CallError
        }
    }
    use crate::sass::Name;
    #[derive(Clone, Copy, PartialEq, Debug)]
    pub struct Unit(pub u8);
    impl Unit {
        /// tags 0: no unit; 1, 2: one dimension; 3: another
        pub fn is_compatible(&self, other: &Unit) -> bool {
            (self.0 == 0 || other.0 == 0) || ((self.0 <= 2) == (other.0 <= 2))
        }
    }
    #[derive(Clone, Copy, PartialEq, Debug)]
    pub struct Numeric {
        pub value: f64,
        pub unit: Unit,
    }
    impl Numeric {
        pub fn is_no_unit(&self) -> bool {
            self.unit.0 == 0
        }
    }
    impl PartialOrd for Numeric {
        fn partial_cmp(&self, other: &Numeric) -> Option<core::cmp::Ordering> {
            if self.unit.is_compatible(&other.unit) {
                self.value.partial_cmp(&other.value)
            } else {
                None
            }
        }
    }
    #[derive(Clone, Copy, PartialEq, Debug)]
    pub enum Value {
        Numeric(Numeric, bool),
        NotANumber,
    }
    impl TryFrom<Value> for Numeric {
        type Error = String;
        fn try_from(v: Value) -> Result<Numeric, String> {
            match v {
                Value::Numeric(n, _) => Ok(n),
                Value::NotANumber => Err(String::new()),
            }
        }
    }
    fn diff_units_msg(_a: &Numeric, _b: &Numeric, _name: Name) -> String {
        String::new()
    }
//@range file=rsass/src/sass/functions/math.rs fn=create_module after="def!(f, clamp(min, number, max), |s| {" until="\n    });"
//@  header: pub fn snippet_clamp(min_arg: Numeric, number_arg: Value, max_arg: Value) -> Result<Value, CallError>
//@  resubst: s\.get::<Numeric>\(name!\((\w+)\)\)\? => \1_arg.clone()
//@  resubst: s\.get_map\(name!\((\w+)\), check_numeric_compat_unit\)\? => check_numeric_compat_unit(\1_arg.clone()).map_err(CallError::msg)?
//@end
}

/// C29: clamp returns one of its arguments — the lower bound when the bounds
/// are in the wrong order or the number is not above it, the upper bound
/// when the number is not below it, else the number — for ALL doubles (same
/// unit tag), and a number whose unit is incompatible with $min's, or that
/// has a unit where $min has none, is an error.
#[kani::proof]
#[kani::stub(alloc::fmt::format, fmt_stub)]
#[kani::unwind(5)]
fn c29_clamp_all_doubles_same_unit() {
    use clampmock::{Numeric as N, Unit as U, Value as V};
    let (lo, x, hi): (f64, f64, f64) = (kani::any(), kani::any(), kani::any());
    kani::assume(!lo.is_nan() && !x.is_nan() && !hi.is_nan());
    let u: u8 = kani::any();
    kani::assume(u <= 3);
    let n = |v: f64| N { value: v, unit: U(u) };
    let want = if lo >= hi || x <= lo { lo } else if x >= hi { hi } else { x };
    match clampmock::snippet_clamp(n(lo), V::Numeric(n(x), true), V::Numeric(n(hi), true)) {
        Ok(V::Numeric(r, _)) => {
            assert!(r.value == want, "clamp: $min if $min >= $max or $number <= $min, $max if $number >= $max, else $number");
            assert!(r.unit == U(u), "clamp keeps the unit");
        }
        _ => assert!(false, "clamp of three numbers with one unit is a number"),
    }
}
#[kani::proof]
#[kani::stub(alloc::fmt::format, fmt_stub)]
#[kani::unwind(5)]
fn c29_clamp_rejects_incompatible_or_mixed_unitless() {
    use clampmock::{Numeric as N, Unit as U, Value as V};
    let (ua, ub, uc): (u8, u8, u8) = (kani::any(), kani::any(), kani::any());
    kani::assume(ua <= 3 && ub <= 3 && uc <= 3);
    let r = clampmock::snippet_clamp(N { value: 1.0, unit: U(ua) }, V::Numeric(N { value: 2.0, unit: U(ub) }, true), V::Numeric(N { value: 3.0, unit: U(uc) }, true));
    let ok = |a: u8, b: u8| (a == 0) == (b == 0) && ((a <= 2) == (b <= 2) || a == 0);
    if ok(ua, ub) && ok(ua, uc) {
        assert!(r.is_ok(), "compatible units (or no units at all) are accepted");
    } else {
        assert!(r.is_err(), "a unit incompatible with $min's, or units mixed with no units, is an error");
    }
    assert!(clampmock::snippet_clamp(N { value: 1.0, unit: U(1) }, V::NotANumber, V::Numeric(N { value: 3.0, unit: U(1) }, true)).is_err(), "a non-number is an error");
}

// ---- the "requires unitless input" check of pow / sqrt / log / exp:
// `math::unitless` and the `check::unitless` it calls, both complete bodies
// extracted each run, at stand-in Value / Numeric / Number types (a double
// with a unit tag; the stand-in unit offers `is_none` and `dimension` as the
// real UnitSet does: `%` and `fr` have a unit but no dimension) and with the
// error TEXT (`expected_to`, which formats the value through core::fmt)
// replaced by an empty string.  Cheap enough for ALL doubles, which the
// harnesses on the real types above are not (attempts). ----
pub(crate) mod unitlessmock {
    #[derive(Clone, Copy, PartialEq, Debug)]
    pub struct Number(pub f64);
    impl From<Number> for f64 {
        fn from(n: Number) -> f64 {
            n.0
        }
    }
    /// tags 0: no unit; 1: %; 2: fr; 3: px
    #[derive(Clone, Copy, PartialEq, Debug)]
    pub struct UnitSet(pub u8);
    impl UnitSet {
        pub fn is_none(&self) -> bool {
            self.0 == 0
        }
        pub fn dimension(&self) -> Vec<(u8, i8)> {
            if self.0 == 3 { vec![(1, 1)] } else { vec![] }
        }
    }
    #[derive(Clone, Copy, PartialEq, Debug)]
    pub struct Numeric {
        pub value: Number,
        pub unit: UnitSet,
    }
    impl Numeric {
        pub fn is_no_unit(&self) -> bool {
            self.unit.is_none()
        }
    }
    #[derive(Clone, Copy, PartialEq, Debug)]
    pub enum Value {
        Numeric(Numeric, bool),
        NotANumber,
    }
    impl From<Numeric> for Value {
        fn from(n: Numeric) -> Value {
            Value::Numeric(n, true)
        }
    }
    impl TryFrom<Value> for Numeric {
        type Error = String;
        fn try_from(v: Value) -> Result<Numeric, String> {
            match v {
                Value::Numeric(n, _) => Ok(n),
                Value::NotANumber => Err(String::new()),
            }
        }
    }
    fn expected_to<T: Into<Value>>(_value: T, _cond: &str) -> String {
        String::new()
    }
    pub mod check {
        use super::{Number, Numeric, Value, expected_to};
//@range file=rsass/src/sass/functions/mod.rs fn=unitless
//@  header: pub fn unitless(v: Value) -> Result<Number, String>
//@end
    }
//@range file=rsass/src/sass/functions/math.rs fn=unitless
//@  header: pub fn unitless(value: Value) -> Result<f64, String>
//@end
}

/// C29: pow / sqrt / log / exp require unitless input: the argument check
/// gives the number's value, unchanged, exactly when it has no unit — `%`
/// and `fr` are units too — and is an error otherwise (all doubles).
#[kani::proof]
#[kani::stub(alloc::fmt::format, fmt_stub)]
#[kani::unwind(5)]
fn c29_unitless_check_all_doubles() {
    use unitlessmock::{Number, Numeric, UnitSet, Value};
    let x: f64 = kani::any();
    let u: u8 = kani::any();
    kani::assume(u <= 3);
    let r = unitlessmock::unitless(Value::Numeric(Numeric { value: Number(x), unit: UnitSet(u) }, true));
    match r {
        Ok(v) => {
            assert!(u == 0, "a number with a unit (also % and fr) is rejected");
            assert!(v.to_bits() == x.to_bits(), "the value is passed on unchanged");
        }
        Err(_) => assert!(u != 0, "a number without unit is accepted"),
    }
    assert!(unitlessmock::unitless(Value::NotANumber).is_err(), "a non-number is rejected");
}

// ---- math.clamp: the complete closure body, extracted each run.  Listed
// (regex) substitutions, argument fetches only: `s.get::<Numeric>(name!(min))?`
// -> the Numeric parameter, `s.get_map(name!(x), check_numeric_compat_unit)?`
// -> `check_numeric_compat_unit(Value::from(x_arg))?` (the closure's own
// compatibility check, applied to the harness's number). ----
//@range file=rsass/src/sass/functions/math.rs fn=create_module after="def!(f, clamp(min, number, max), |s| {" until="\n    });"
//@  header: fn snippet_clamp(min_arg: Numeric, number_arg: Numeric, max_arg: Numeric) -> Result<Value, CallError>
//@  resubst: s\.get::<Numeric>\(name!\((\w+)\)\)\? => \1_arg.clone()
//@  resubst: s\.get_map\(name!\((\w+)\), check_numeric_compat_unit\)\? => check_numeric_compat_unit(Value::from(\1_arg.clone())).map_err(CallError::msg)?
//@end

fn px(v: f64) -> Numeric {
    Numeric::new(v, UnitSet::from(Unit::Px))
}
/// C29: clamp returns one of its arguments: the number when it lies between
/// the bounds, else the bound it crossed — also when the bounds are given in
/// the wrong order (clamp(5, 0, 1) is 5: the lower bound wins).
#[kani::proof]
#[kani::stub(alloc::fmt::format, fmt_stub)]
#[kani::unwind(5)]
fn c29_clamp_returns_one_of_its_arguments() {
    assert!(parts(snippet_clamp(px(1.0), px(5.0), px(10.0))).0 == 5.0, "clamp(1px, 5px, 10px) is 5px");
    assert!(parts(snippet_clamp(px(1.0), px(0.0), px(10.0))).0 == 1.0, "below the lower bound: the lower bound");
    assert!(parts(snippet_clamp(px(1.0), px(50.0), px(10.0))).0 == 10.0, "above the upper bound: the upper bound");
    assert!(parts(snippet_clamp(px(5.0), px(0.0), px(1.0))).0 == 5.0, "bounds in the wrong order: the lower bound wins");
}
