//! Proof harnesses for rsass/src/value/range.rs (Kani twin of the Verus
//! unit U-range; gives concrete witnesses for the overflow obligations).
use super::*;

/// C01: `ValueRange::new` never overflows, for every i64 pair (this is what
/// `@for $i from a through b` calls after `into_integer`).
#[kani::proof]
fn c01_range_new_no_overflow() {
    let r = ValueRange::new(kani::any(), kani::any(), kani::any(), UnitSet::scalar());
    assert!(r.step == 1 || r.step == -1);
}

/// C17: direction and end point of the range that `new` builds
/// (all i64, including the i64 edges): step = +1 when to >= from else -1; the
/// exclusive end is `to` (+step when inclusive).
#[kani::proof]
fn c17_range_new_shape() {
    let (from, to, inclusive): (i64, i64, bool) = (kani::any(), kani::any(), kani::any());
        let r = ValueRange::new(from, to, inclusive, UnitSet::scalar());
    assert!(r.from == i128::from(from));
    assert!(r.step == if to >= from { 1 } else { -1 }, "counts down when b < a");
    assert!(r.to == if inclusive { i128::from(to) + r.step } else { i128::from(to) }, "through includes b, to stops before b");
}
