//! Proof harnesses for rsass/src/value/range.rs (Kani twin of the Verus
//! unit U-range; gives concrete witnesses for the overflow obligations).
use super::*;

/// C01: `ValueRange::new` never overflows, for every i64 pair (this is what
/// `@for $i from a through b` calls after `into_integer`).
#[kani::proof]
fn c01_range_new_no_overflow() {
    let r = ValueRange::new(kani::any(), kani::any(), kani::any(), UnitSet::scalar());
    assert!(r.step == 1 || r.step == -1);
}

/// C17: direction and end point of the range that `new` builds
/// (all i64, including the i64 edges): step = +1 when to >= from else -1; the
/// exclusive end is `to` (+step when inclusive).
#[kani::proof]
fn c17_range_new_shape() {
    let (from, to, inclusive): (i64, i64, bool) = (kani::any(), kani::any(), kani::any());
        let r = ValueRange::new(from, to, inclusive, UnitSet::scalar());
    // (`as i128`: independent of the integer type the fields have)
    assert!(r.from as i128 == i128::from(from));
    assert!(r.step as i128 == if to >= from { 1 } else { -1 }, "counts down when b < a");
    assert!(r.to as i128 == if inclusive { i128::from(to) + r.step as i128 } else { i128::from(to) }, "through includes b, to stops before b");
}

// ---- K-snippet part (C17): unit handling of the END value of `@for`.
// `SrcRange::evaluate` (sass/srcrange.rs) runs inside the evaluator, which
// Kani cannot compile; the statement range that converts the end value to
// the start value's unit is cut out of /repo's current source on every run
// (tools/extract.py).  Inside the module `Invalid` is a local stand-in with
// the one constructor the range uses (the real one formats an error text
// through core::fmt, which is out of CBMC's reach): listed abstraction. ----
mod for_to {
    use crate::value::{Number, Numeric, UnitSet};
    pub(super) struct Invalid;
    impl Invalid {
        pub(super) fn expected_to(_value: &Numeric, _cond: &str) -> Self {
            Invalid
        }
    }
    pub(super) fn format_stub(_args: std::fmt::Arguments<'_>) -> String {
        String::new()
    }
//@range file=rsass/src/sass/srcrange.rs impl="impl SrcRange" fn=evaluate from="let v = if unit.is_none() || v.is_no_unit() {" until="let v = v.into_integer()"
//@  header: pub(super) fn snippet_for_end(v: Numeric, unit: UnitSet) -> Result<Number, Invalid>
//@  tail: Ok(v)
//@end
}

fn for_end(v: f64, vu: crate::value::Unit, unit: crate::value::Unit) -> Option<f64> {
    match for_to::snippet_for_end(Numeric::new(v, UnitSet::from(vu)), UnitSet::from(unit)) {
        Ok(n) => Some(f64::from(n)),
        Err(_) => None,
    }
}
/// C17: `@for $i from a through b` gives $i a's unit, converting a
/// compatible unit on b; a unitless side takes the other's unit; an
/// incompatible unit on b is an error.
#[kani::proof]
#[kani::stub(std::fmt::format, for_to::format_stub)]
#[kani::unwind(4)]
fn c17_for_end_unit_conversion() {
    use crate::value::Unit;
    assert!(for_end(2.0, Unit::In, Unit::Px) == Some(192.0), "end value is converted to the start value's unit (2in = 192px)");
    assert!(for_end(96.0, Unit::Px, Unit::In) == Some(1.0), "96px = 1in");
    assert!(for_end(3.0, Unit::Px, Unit::Px) == Some(3.0), "same unit: unchanged");
    assert!(for_end(3.0, Unit::None, Unit::Px) == Some(3.0), "unitless end value: taken as is");
    assert!(for_end(3.0, Unit::Px, Unit::None) == Some(3.0), "unitless start value: end value taken as is");
    assert!(for_end(3.0, Unit::Deg, Unit::Px).is_none(), "incompatible unit on the end value is an error");
    assert!(for_end(3.0, Unit::Em, Unit::Px).is_none(), "em -> px has no fixed ratio: error");
}
