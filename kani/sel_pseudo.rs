//! Constructors for rsass/src/css/selectors/pseudo.rs (the fields and the
//! `Arg` type are private to this module); the harnesses that use them are
//! in sel_selector.rs.  Unit U-selectors (C22).
use super::*;

/// `:name(<selectors>)`
pub(crate) fn with_selector(name: &str, arg: SelectorSet) -> Pseudo {
    Pseudo { name: String::from(name), arg: Arg::Selector(arg), element: false }
}
/// `:name`
pub(crate) fn plain(name: &str) -> Pseudo {
    Pseudo { name: String::from(name), arg: Arg::None, element: false }
}
/// The selector argument, if any.
pub(crate) fn selector_arg(p: &Pseudo) -> Option<&SelectorSet> {
    match &p.arg {
        Arg::Selector(s) => Some(s),
        _ => None,
    }
}
pub(crate) fn name_of(p: &Pseudo) -> &str {
    &p.name
}
