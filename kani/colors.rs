//! Contracts and proof harnesses for rsass/src/value/colors/mod.rs
//! Units U-color-cmp (C01: Color::cmp never panics; C12; C31), U-color-law (C32).
use super::hsla::kani_verif::{any_hsla_raw, any_hsla_valid};
use super::hwba::kani_verif::{any_hwba_raw, any_hwba_valid};
use super::rgba::kani_verif::{any_rgba_raw, any_rgba_valid, any_source};
use super::*;
use std::cmp::Ordering;

/// Any Hsla that `Hsla::new` can produce (so NaN hue/lightness, which
/// `hsl(math.div(0,0), ..)` creates, are included).
fn any_hsla_constructible() -> Hsla {
    Hsla::new(kani::any(), kani::any(), kani::any(), kani::any(), kani::any())
}

/// C01: comparing two hsl colors never panics, for every color the public
/// constructor can build.
#[kani::proof]
#[kani::stub(crate::value::colors::hsla::deg_mod, crate::value::colors::hsla::kani_verif::deg_mod_by_contract)]
fn c01_color_cmp_hsla_hsla_total() {
    let a = Color::Hsla(any_hsla_constructible());
    let b = Color::Hsla(any_hsla_constructible());
    let _ = a.cmp(&b);
    let _ = a == b;
}
/// C01: same for hsl vs hwb (goes through Hsla::from(&Hwba)).
#[kani::proof]
#[kani::stub(crate::value::colors::hsla::deg_mod, crate::value::colors::hsla::kani_verif::deg_mod_by_contract)]
fn c01_color_cmp_hsla_hwba_total() {
    let a = Color::Hsla(any_hsla_constructible());
    let b = Color::Hwba(Hwba::new(kani::any(), kani::any(), kani::any(), kani::any()));
    let _ = a.cmp(&b);
    let _ = b.cmp(&a);
}
/// C12: == on hsl colors is symmetric and cmp antisymmetric (valid colors).
#[kani::proof]
#[kani::stub(crate::value::colors::hsla::deg_mod, crate::value::colors::hsla::kani_verif::deg_mod_by_contract)]
fn c12_color_hsla_cmp_antisymmetric() {
    let a = Color::Hsla(any_hsla_valid());
    let b = Color::Hsla(any_hsla_valid());
    assert!(a.cmp(&b) == b.cmp(&a).reverse());
    assert!((a == b) == (b == a));
    assert!((a != b) == !(a == b));
}
/// C12: `==` between an hwb and an hsl color is symmetric and cmp is
/// antisymmetric, whichever operand is on the left (mixed representations
/// take a different path through Color::cmp for each order).
#[kani::proof]
#[kani::stub(crate::value::colors::hsla::deg_mod, crate::value::colors::hsla::kani_verif::deg_mod_by_contract)]
fn c12_color_hwba_hsla_eq_symmetric() {
    let a = Color::Hwba(any_hwba_valid());
    let b = Color::Hsla(any_hsla_valid());
    assert!((a == b) == (b == a), "hwb == hsl is symmetric");
    assert!(a.cmp(&b) == b.cmp(&a).reverse(), "hwb cmp hsl is antisymmetric");
}
/// C12: the same law on concrete probe colors (the symbolic version above
/// exceeds 15 minutes): hwb(0 30% 10%) and hsl(0, 75%, 60%) denote the same
/// color up to conversion rounding; whatever `==` says must not depend on
/// which one is on the left.
#[kani::proof]
#[kani::stub(crate::value::colors::hsla::deg_mod, crate::value::colors::hsla::kani_verif::deg_mod_by_contract)]
fn c12_color_hwba_hsla_eq_symmetric_probe() {
    let a = Color::Hwba(Hwba::new(0.0, 0.3, 0.1, 1.0));
    let b = Color::Hsla(Hsla::new(0.0, 0.75, 0.6, 1.0, true));
    assert!((a == b) == (b == a), "hwb == hsl is symmetric (probe pair)");
    assert!(a.cmp(&b) == b.cmp(&a).reverse(), "hwb cmp hsl is antisymmetric (probe pair)");
    let c = Color::Hwba(Hwba::new(210.0, 0.2, 0.4, 1.0));
    let d = Color::Hsla(Hsla::new(210.0, 0.5, 0.4, 1.0, false));
    assert!((c == d) == (d == c), "hwb == hsl is symmetric (second probe pair)");
}
/// C12: same for an rgb and an hsl color.
#[kani::proof]
#[kani::stub(crate::value::colors::hsla::deg_mod, crate::value::colors::hsla::kani_verif::deg_mod_by_contract)]
fn c12_color_rgba_hsla_eq_symmetric() {
    let a = Color::Rgba(any_rgba_valid());
    let b = Color::Hsla(any_hsla_valid());
    assert!((a == b) == (b == a), "rgb == hsl is symmetric");
}
/// C12 (equality consistent with ordering): two rgb colors are `==`
/// exactly when `cmp` says Equal — in particular channels that differ only
/// by conversion rounding (< 1e-7, what rebuilding a color from its hsl /
/// hwb channels produces, C31) still compare equal.
#[kani::proof]
#[kani::stub(crate::value::colors::hsla::deg_mod, crate::value::colors::hsla::kani_verif::deg_mod_by_contract)]
fn c12_color_eq_consistent_with_cmp_rgba() {
    let a = any_rgba_valid();
    let b = any_rgba_valid();
    let (ca, cb) = (Color::Rgba(a.clone()), Color::Rgba(b.clone()));
    assert!((ca == cb) == (ca.cmp(&cb) == Ordering::Equal), "== agrees with cmp");
    let close = (a.red() - b.red()).abs() < 1e-8 && a.green() == b.green() && a.blue() == b.blue() && a.alpha() == b.alpha();
    assert!(!close || ca == cb, "channels within conversion rounding are equal colors");
}
/// C12: every (non-NaN) color equals itself.
#[kani::proof]
#[kani::stub(crate::value::colors::hsla::deg_mod, crate::value::colors::hsla::kani_verif::deg_mod_by_contract)]
fn c12_color_reflexive() {
    let h = any_hsla_valid();
    let r = any_rgba_valid();
    assert!(Color::Hsla(h.clone()) == Color::Hsla(h));
    assert!(Color::Rgba(r.clone()) == Color::Rgba(r));
}
/// C31: two hsl colors with the same channels are equal, whichever notation
/// (the `hsla_format` provenance flag) created them.
#[kani::proof]
#[kani::stub(crate::value::colors::hsla::deg_mod, crate::value::colors::hsla::kani_verif::deg_mod_by_contract)]
fn c31_color_hsla_same_channels_equal() {
    let a = any_hsla_valid();
    let mut b = a.clone();
    b.hsla_format = !a.hsla_format;
    assert!(Color::Hsla(a) == Color::Hsla(b), "same hsl channels, different origin: ==");
}
/// C31: two rgb colors with the same channels are equal regardless of source.
#[kani::proof]
#[kani::stub(crate::value::colors::hsla::deg_mod, crate::value::colors::hsla::kani_verif::deg_mod_by_contract)]
fn c31_color_rgba_same_channels_equal() {
    let a = any_rgba_valid();
    let mut b = a.clone();
    b.reset_source();
    assert!(Color::Rgba(a) == Color::Rgba(b));
}

/// C31/C32: Color::set_alpha clamps into [0,1] for every color kind.
#[kani::proof]
#[kani::stub(crate::value::colors::hsla::deg_mod, crate::value::colors::hsla::kani_verif::deg_mod_by_contract)]
fn c31_color_set_alpha_in_range() {
    let a: f64 = kani::any();
    kani::assume(!a.is_nan());
    let mut c = match kani::any::<u8>() % 3 {
        0 => Color::Rgba(any_rgba_valid()),
        1 => Color::Hsla(any_hsla_valid()),
        _ => Color::Hwba(any_hwba_valid()),
    };
    c.set_alpha(a);
    let r = c.get_alpha();
    assert!(0.0 <= r && r <= 1.0, "alpha in [0,1]");
    assert!(!(0.0 <= a && a <= 1.0) || r == a, "in-range alpha is stored exactly");
    assert!(!(a > 1.0) || r == 1.0);
    assert!(!(a < 0.0) || r == 0.0);
}

/// C32: adjust-hue by 360deg returns the color (hsl origin).
#[kani::proof]
#[kani::stub(crate::value::colors::hsla::deg_mod, crate::value::colors::hsla::kani_verif::deg_mod_by_contract)]
fn c32_rotate_hue_360_identity_hsla() {
    let h = any_hsla_valid();
    let c = Color::Hsla(h.clone());
    let r = c.rotate_hue(360.0);
    match r {
        Color::Hsla(ref x) => {
            let d = (x.hue() - h.hue()).abs();
            assert!(d < 1e-9 || d > 360.0 - 1e-9, "hue unchanged (mod 360)");
            assert!(0.0 <= x.hue() && x.hue() < 360.0);
            assert!(x.sat() == h.sat() && x.lum() == h.lum() && x.alpha() == h.alpha());
            assert!(x.hsla_format == h.hsla_format);
        }
        _ => assert!(false, "rotate_hue keeps the hsl representation"),
    }
}
/// C32: rotating by d and then by -d restores hue, for |d| <= 360 (the
/// interval on which the assumed deg_mod contract is exact; outside it the
/// contract only says "some angle in [0,360)", which cannot carry this law).
/// One harness per way the first rotation can wrap (the undivided query did
/// not finish in 15 minutes): the four cases cover every (hue, d).
fn rotate_hue_cancel(case: u8) {
    let h = any_hsla_valid();
    let d: f64 = kani::any();
    kani::assume(-360.0 <= d && d <= 360.0);
    let sum = h.hue() + d;
    match case {
        0 => kani::assume(d >= 0.0 && sum < 360.0),
        1 => kani::assume(d >= 0.0 && sum >= 360.0),
        2 => kani::assume(d < 0.0 && sum >= 0.0),
        _ => kani::assume(d < 0.0 && sum < 0.0),
    }
    let c = Color::Hsla(h.clone());
    let r = c.rotate_hue(d).rotate_hue(-d);
    let x = r.to_hsla();
    let diff = (x.hue() - h.hue()).abs();
    assert!(diff < 1e-6 || diff > 360.0 - 1e-6, "hue restored");
    assert!(x.sat() == h.sat() && x.lum() == h.lum() && x.alpha() == h.alpha());
}
macro_rules! gen_cancel {
    ($name:ident, $case:expr) => {
        #[kani::proof]
        #[kani::stub(crate::value::colors::hsla::deg_mod, crate::value::colors::hsla::kani_verif::deg_mod_by_contract)]
        fn $name() {
            rotate_hue_cancel($case);
        }
    };
}
gen_cancel!(c32_rotate_hue_cancel_hsla_fwd_nowrap, 0);
gen_cancel!(c32_rotate_hue_cancel_hsla_fwd_wrap, 1);
gen_cancel!(c32_rotate_hue_cancel_hsla_back_nowrap, 2);
gen_cancel!(c32_rotate_hue_cancel_hsla_back_wrap, 3);

/// C32: rotate_hue on a hwb color keeps whiteness/blackness/alpha.
#[kani::proof]
#[kani::stub(crate::value::colors::hsla::deg_mod, crate::value::colors::hsla::kani_verif::deg_mod_by_contract)]
fn c32_rotate_hue_hwba_keeps_channels() {
    let w = any_hwba_valid();
    let d: f64 = kani::any();
    kani::assume(d.is_finite());
    match Color::Hwba(w.clone()).rotate_hue(d) {
        Color::Hwba(x) => {
            assert!((x.whiteness() - w.whiteness()).abs() <= 1e-15);
            assert!((x.blackness() - w.blackness()).abs() <= 1e-15);
            assert!(x.alpha() == w.alpha());
        }
        _ => assert!(false),
    }
}
/// C32: Color::invert dispatches to the representation's invert and
/// leaves alpha alone; twice = identity for rgb-origin colors.
#[kani::proof]
#[kani::stub(crate::value::colors::hsla::deg_mod, crate::value::colors::hsla::kani_verif::deg_mod_by_contract)]
fn c32_color_invert_involution_rgba() {
    let r = any_rgba_valid();
    let c = Color::Rgba(r.clone());
    let back = c.invert(1.0).invert(1.0);
    assert!(back == c, "invert(invert(c)) == c");
    assert!(back.get_alpha() == r.alpha());
}

#[kani::proof]
#[kani::stub(crate::value::colors::hsla::deg_mod, crate::value::colors::hsla::kani_verif::deg_mod_by_contract)]
fn cover_colors() {
    let a = any_hsla_constructible();
    kani::cover!(a.hue().is_nan());
    kani::cover!(a.lum().is_nan() && !a.hue().is_nan());
    let _ = (any_hsla_raw(), any_hwba_raw(), any_rgba_raw(), any_source());
}
