//! K-snippet unit U-colorfns, part 2 (C32): the body of `mix`, extracted
//! from sass/functions/color/rgb.rs on every run (tools/extract.py).  Listed
//! (regex) substitutions, argument fetches only: `s.get(name!(x))?` ->
//! `x_arg.clone()` (a Color), `s.get_map(name!(weight), check_pct_range)?`
//! -> the f64 parameter (a fraction in [0, 1], what the real check lets
//! through).
use super::*;

//@range file=rsass/src/sass/functions/color/rgb.rs fn=register after="def!(f, mix(color1, color2, weight = b\"50%\"), |s| {" until="\n    });"
//@  header: fn snippet_mix(color1_arg: Color, color2_arg: Color, weight_arg: f64) -> Result<Value, CallError>
//@  resubst: s\.get\(name!\((\w+)\)\)\? => \1_arg.clone()
//@  resubst: s\.get_map\(name!\((\w+)\), check_pct_range\)\? => \1_arg
//@end

fn rgba_of(v: Result<Value, CallError>) -> Rgba {
    match v {
        Ok(Value::Color(c, _)) => c.to_rgba().into_owned(),
        _ => {
            assert!(false, "mix returns a color");
            unreachable!()
        }
    }
}
fn any_channel() -> f64 {
    let c: f64 = kani::any();
    kani::assume(0.0 <= c && c <= 255.0);
    c
}
/// C32: mix(c, c, w) is c, for every opaque rgb color (up to the rounding
/// of w*c + (1-w)*c, far inside the 1e-7 tolerance of color equality).
/// Concrete weights (a symbolic weight times a symbolic channel, three
/// times, exceeds 15 minutes: that version is a thorough-tier attempt).
fn mix_self(w: f64) {
    let (r, g, b) = (any_channel(), any_channel(), any_channel());
    let c = Color::Rgba(Rgba::new(r, g, b, 1.0, RgbFormat::Name));
    let m = rgba_of(snippet_mix(c.clone(), c.clone(), w));
    assert!((m.red() - r).abs() < 1e-9 && (m.green() - g).abs() < 1e-9 && (m.blue() - b).abs() < 1e-9, "mix(c, c, w): the channels of c");
    assert!(m.alpha() == 1.0, "mix(c, c, w): the alpha of c");
    assert!(Color::Rgba(m) == c, "mix(c, c, w) == c");
}
#[kani::proof]
#[kani::stub(crate::value::colors::hsla::deg_mod, crate::value::colors::hsla::kani_verif::deg_mod_by_contract)]
fn c32_mix_with_itself_is_identity_w30() {
    mix_self(0.3)
}
#[kani::proof]
#[kani::stub(crate::value::colors::hsla::deg_mod, crate::value::colors::hsla::kani_verif::deg_mod_by_contract)]
fn c32_mix_with_itself_is_identity_w50() {
    mix_self(0.5)
}
#[kani::proof]
#[kani::stub(crate::value::colors::hsla::deg_mod, crate::value::colors::hsla::kani_verif::deg_mod_by_contract)]
fn c32_mix_with_itself_is_identity() {
    let w: f64 = kani::any();
    kani::assume(0.0 <= w && w <= 1.0);
    mix_self(w)
}
/// C32: the weight is the share of the FIRST color: weight 100% gives the
/// first color, 0% the second (opaque colors).
#[kani::proof]
#[kani::stub(crate::value::colors::hsla::deg_mod, crate::value::colors::hsla::kani_verif::deg_mod_by_contract)]
fn c32_mix_weight_is_share_of_first_color() {
    let a = Color::Rgba(Rgba::new(any_channel(), any_channel(), any_channel(), 1.0, RgbFormat::Name));
    let b = Color::Rgba(Rgba::new(any_channel(), any_channel(), any_channel(), 1.0, RgbFormat::Name));
    assert!(Color::Rgba(rgba_of(snippet_mix(a.clone(), b.clone(), 1.0))) == a, "mix(a, b, 100%) is a");
    assert!(Color::Rgba(rgba_of(snippet_mix(a.clone(), b.clone(), 0.0))) == b, "mix(a, b, 0%) is b");
}

#[kani::proof]
fn cover_colorfns_rgb() {
    let c = any_channel();
    kani::cover!(c > 200.0);
}
