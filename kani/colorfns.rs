//! K-snippet unit U-colorfns (C32): the channel arithmetic of lighten,
//! darken, saturate, desaturate, grayscale and complement.  The Sass
//! functions are closures inside `sass::functions::color::hsl::{register,
//! expose}`, reachable only through the built-in function table, so the
//! closure bodies are cut out of /repo's current source on every run
//! (tools/extract.py) and wrapped in functions of their free variables; the
//! only substitutions are the argument fetches (`s.get::<Color>(…)?`,
//! `s.get_map(name!(amount), …)?`), replaced by the parameters.  `Hsla::new` below is the real one (its hue
//! normalisation `deg_mod` by its assumed contract).  Loop-free, all doubles
//! in the channel ranges: complete.
use super::*;

/// Any hsl color with channels in range (hue in [0,360), the others in
/// [0,1]), built through the public constructor.
fn any_hsla_valid() -> Hsla {
    let (h, s, l, a): (f64, f64, f64, f64) = (kani::any(), kani::any(), kani::any(), kani::any());
    kani::assume(0.0 <= h && h < 360.0 && 0.0 <= s && s <= 1.0 && 0.0 <= l && l <= 1.0 && 0.0 <= a && a <= 1.0);
    Hsla::new(h, s, l, a, kani::any())
}

//@range file=rsass/src/sass/functions/color/hsl.rs fn=expose after="def!(f, lighten(color, amount), |s| {" until="\n    });"
//@  header: fn snippet_lighten(color_arg: Color, amount: f64) -> Result<Value, CallError>
//@  subst: s.get::<Color>(name!(color))? => color_arg
//@  subst: s.get_map(name!(amount), check_amount)? => amount
//@end

//@range file=rsass/src/sass/functions/color/hsl.rs fn=expose after="def!(f, darken(color, amount), |s| {" until="\n    });"
//@  header: fn snippet_darken(color_arg: Color, amount: f64) -> Result<Value, CallError>
//@  subst: s.get::<Color>(name!(color))? => color_arg
//@  subst: s.get_map(name!(amount), check_amount)? => amount
//@end

//@range file=rsass/src/sass/functions/color/hsl.rs fn=expose after="def!(f, desaturate(color, amount), |s| {" until="\n    });"
//@  header: fn snippet_desaturate(color_arg: Color, amount: f64) -> Result<Value, CallError>
//@  subst: s.get::<Color>(name!(color))? => color_arg
//@  subst: s.get_map(name!(amount), check_amount)? => amount
//@end

//@range file=rsass/src/sass/functions/color/hsl.rs fn=expose after="Ok(s) => {" until="\n            }\n"
//@  header: fn snippet_saturate(color_arg: Color, amount: f64) -> Result<Value, CallError>
//@  subst: s.get::<Color>(name!(color))? => color_arg
//@  subst: s.get_map(name!(amount), check_amount)? => amount
//@end

//@range file=rsass/src/sass/functions/color/hsl.rs fn=expose from="match args.get(name!(color))? {" balanced=1
//@  header: fn snippet_grayscale(color_arg: Color) -> Result<Value, CallError>
//@  subst: args.get(name!(color))? => Value::Color(color_arg, None)
//@end

//@range file=rsass/src/sass/functions/color/hsl.rs fn=register after="def!(f, complement(color), |s| {" until="\n    });"
//@  header: fn snippet_complement(color: Color) -> Result<Value, CallError>
//@  subst: s.get::<Color>(name!(color))? => color
//@end

fn hsla_of(v: Result<Value, CallError>) -> Hsla {
    match v {
        Ok(Value::Color(Color::Hsla(h), _)) => h,
        _ => {
            assert!(false, "the function returns an hsl color");
            unreachable!()
        }
    }
}
/// An amount as `check_amount` lets it through: a fraction in [0, 1].
fn any_amount() -> f64 {
    let a: f64 = kani::any();
    kani::assume(0.0 <= a && a <= 1.0);
    a
}
fn clamp01(x: f64) -> f64 {
    if x < 0.0 { 0.0 } else if x > 1.0 { 1.0 } else { x }
}

/// C32: lighten moves the lightness up by exactly the amount, clamped to
/// 0..100%, and leaves hue, saturation and alpha unchanged.
#[kani::proof]
#[kani::stub(crate::value::colors::hsla::deg_mod, crate::value::colors::hsla::kani_verif::deg_mod_by_contract)]
fn c32_lighten_moves_lightness_clamped() {
    let c = any_hsla_valid();
    let a = any_amount();
    let r = hsla_of(snippet_lighten(Color::Hsla(c.clone()), a));
    assert!(r.lum() == clamp01(c.lum() + a), "lighten: lightness + amount, clamped to [0, 100%]");
    assert!(r.hue() == c.hue() && r.sat() == c.sat() && r.alpha() == c.alpha(), "lighten: other channels unchanged");
}
/// C32: darken moves the lightness down by exactly the amount, clamped.
#[kani::proof]
#[kani::stub(crate::value::colors::hsla::deg_mod, crate::value::colors::hsla::kani_verif::deg_mod_by_contract)]
fn c32_darken_moves_lightness_clamped() {
    let c = any_hsla_valid();
    let a = any_amount();
    let r = hsla_of(snippet_darken(Color::Hsla(c.clone()), a));
    assert!(r.lum() == clamp01(c.lum() - a), "darken: lightness - amount, clamped to [0, 100%]");
    assert!(r.hue() == c.hue() && r.sat() == c.sat() && r.alpha() == c.alpha(), "darken: other channels unchanged");
}
/// C32: lighten and darken undo each other when nothing was clamped
/// (up to one rounding of the two additions).
#[kani::proof]
#[kani::stub(crate::value::colors::hsla::deg_mod, crate::value::colors::hsla::kani_verif::deg_mod_by_contract)]
fn c32_lighten_darken_undo() {
    let c = any_hsla_valid();
    let a = any_amount();
    kani::assume(c.lum() + a <= 1.0);
    let up = hsla_of(snippet_lighten(Color::Hsla(c.clone()), a));
    let back = hsla_of(snippet_darken(Color::Hsla(up), a));
    assert!((back.lum() - c.lum()).abs() <= 4.0 * f64::EPSILON, "darken undoes lighten when nothing was clamped");
    assert!(back.hue() == c.hue() && back.sat() == c.sat() && back.alpha() == c.alpha());
}
/// C32: saturate / desaturate move the saturation by exactly the amount,
/// clamped to 0..100%.
#[kani::proof]
#[kani::stub(crate::value::colors::hsla::deg_mod, crate::value::colors::hsla::kani_verif::deg_mod_by_contract)]
fn c32_saturate_moves_saturation_clamped() {
    let c = any_hsla_valid();
    let a = any_amount();
    let r = hsla_of(snippet_saturate(Color::Hsla(c.clone()), a));
    assert!(r.sat() == clamp01(c.sat() + a), "saturate: saturation + amount, clamped");
    assert!(r.hue() == c.hue() && r.lum() == c.lum() && r.alpha() == c.alpha(), "saturate: other channels unchanged");
}
#[kani::proof]
#[kani::stub(crate::value::colors::hsla::deg_mod, crate::value::colors::hsla::kani_verif::deg_mod_by_contract)]
fn c32_desaturate_moves_saturation_clamped() {
    let c = any_hsla_valid();
    let a = any_amount();
    let r = hsla_of(snippet_desaturate(Color::Hsla(c.clone()), a));
    assert!(r.sat() == clamp01(c.sat() - a), "desaturate: saturation - amount, clamped");
    assert!(r.hue() == c.hue() && r.lum() == c.lum() && r.alpha() == c.alpha(), "desaturate: other channels unchanged");
}
/// C32: grayscale gives saturation 0 and leaves lightness and alpha unchanged.
#[kani::proof]
#[kani::stub(crate::value::colors::hsla::deg_mod, crate::value::colors::hsla::kani_verif::deg_mod_by_contract)]
fn c32_grayscale_zero_saturation() {
    // also for out-of-gamut saturation (hsl(210, 150%, 40%) is a legal value)
    let (h, sat, l, a): (f64, f64, f64, f64) = (kani::any(), kani::any(), kani::any(), kani::any());
    kani::assume(0.0 <= h && h < 360.0 && 0.0 <= sat && sat <= 2.0 && 0.0 <= l && l <= 1.0 && 0.0 <= a && a <= 1.0);
    let c = Hsla::new(h, sat, l, a, kani::any());
    let r = hsla_of(snippet_grayscale(Color::Hsla(c.clone())));
    assert!(r.sat() == 0.0, "grayscale: saturation 0");
    assert!(r.lum() == c.lum() && r.alpha() == c.alpha() && r.hue() == c.hue(), "grayscale: lightness, alpha (and hue) unchanged");
}
/// C32: complement rotates the hue by half a turn, so applying it twice
/// gives back the color.
#[kani::proof]
#[kani::stub(crate::value::colors::hsla::deg_mod, crate::value::colors::hsla::kani_verif::deg_mod_by_contract)]
fn c32_complement_twice_is_identity() {
    let c = any_hsla_valid();
    let once = match snippet_complement(Color::Hsla(c.clone())) {
        Ok(Value::Color(col, _)) => col,
        _ => {
            assert!(false, "complement returns a color");
            unreachable!()
        }
    };
    let h1 = once.to_hsla();
    let d = (h1.hue() - c.hue()).abs();
    assert!((d - 180.0).abs() < 1e-9, "complement: hue differs by 180 degrees");
    assert!(h1.sat() == c.sat() && h1.lum() == c.lum() && h1.alpha() == c.alpha(), "complement: other channels unchanged");
    let twice = hsla_of(snippet_complement(once));
    let d2 = (twice.hue() - c.hue()).abs();
    assert!(d2 < 1e-9 || d2 > 360.0 - 1e-9, "complement twice restores the hue");
}

#[kani::proof]
#[kani::stub(crate::value::colors::hsla::deg_mod, crate::value::colors::hsla::kani_verif::deg_mod_by_contract)]
fn cover_colorfns() {
    let c = any_hsla_valid();
    let a = any_amount();
    kani::cover!(c.lum() + a > 1.0);
    kani::cover!(c.lum() - a < 0.0);
}
