//! Proof harnesses for rsass/src/css/selectors/{selector,selectorset,pseudo}.rs
//! — unit U-selectors (C22): the real `no_placeholder` functions on small
//! concrete selector structures (bounded).  The fold they share
//! (Opt::collect_pos / collect_neg) is under contract in opt.rs.
use super::super::compound::kani_verif as kc;
use super::super::pseudo::kani_verif as kp;
use super::*;

fn sel(compound: CompoundSelector, rel: Option<(RelKind, Selector)>) -> Selector {
    Selector { rel_of: rel.map(Box::new), compound }
}
/// `.c` / `%p` / `#i.c`
fn simple(placeholder: bool) -> Selector {
    sel(kc::mk(false, placeholder, true, vec![]), None)
}

/// C22: a complex selector whose ancestor part contains a placeholder is
/// removed; without placeholders it is kept unchanged.
#[kani::proof]
#[kani::unwind(4)]
fn c22_selector_placeholder_in_ancestor_is_removed() {
    // `%p .c`
    let s = sel(kc::mk(false, false, true, vec![]), Some((RelKind::Ancestor, simple(true))));
    assert!(matches!(s.no_placeholder(), Opt::None), "`%p .c` is removed");
}
#[kani::proof]
#[kani::unwind(4)]
fn c22_selector_without_placeholder_is_kept() {
    // `.c > .c`
    let s = sel(kc::mk(false, false, true, vec![]), Some((RelKind::Parent, simple(false))));
    match s.no_placeholder() {
        Opt::Some(r) => assert!(r == s, "a complex selector without placeholder is kept unchanged"),
        _ => assert!(false, "a complex selector without placeholder is kept"),
    }
}
/// C22: in a selector list, exactly the complex selectors with a
/// placeholder are removed; the rest keep their order; a list whose
/// selectors are all removed is not emitted (Opt::None).
#[kani::proof]
#[kani::unwind(5)]
fn c22_selector_list_drops_placeholder_members() {
    // `%p, .c, #i.c`
    let third = sel(kc::mk(true, false, true, vec![]), None);
    let set = SelectorSet { s: vec![simple(true), simple(false), third.clone()] };
    match set.no_placeholder() {
        Opt::Some(r) => {
            assert!(r.s.len() == 2, "exactly the selector with a placeholder is removed");
            assert!(r.s[0] == simple(false) && r.s[1] == third, "the remaining selectors keep text and order");
        }
        _ => assert!(false, "a list with placeholder-free members is emitted"),
    }
}
#[kani::proof]
#[kani::unwind(5)]
fn c22_selector_list_all_removed() {
    let set = SelectorSet { s: vec![simple(true), simple(true)] };
    assert!(matches!(set.no_placeholder(), Opt::None), "a rule whose selectors are all removed is not emitted");
}
/// C22 inside pseudo-class arguments, as selector semantics require:
/// `:is(%p)` matches nothing (the enclosing selector is removed),
/// `:not(%p)` matches everything (the pseudo-class is dropped, the enclosing
/// selector stays), `:is(.c, %p)` keeps `.c`.
#[kani::proof]
#[kani::unwind(5)]
fn c22_pseudo_is_with_only_placeholders_matches_nothing() {
    let p = kp::with_selector("is", SelectorSet { s: vec![simple(true)] });
    assert!(matches!(p.no_placeholder(), Opt::None), ":is(%p) matches nothing");
    let c = kc::mk(false, false, true, vec![p]);
    assert!(matches!(c.no_placeholder(), Opt::None), "`.c:is(%p)` is removed");
}
#[kani::proof]
#[kani::unwind(5)]
fn c22_pseudo_not_with_only_placeholders_matches_anything() {
    let p = kp::with_selector("not", SelectorSet { s: vec![simple(true)] });
    assert!(matches!(p.no_placeholder(), Opt::Any), ":not(%p) matches anything");
    let c = kc::mk(false, false, true, vec![p]);
    match c.no_placeholder() {
        Opt::Some(r) => assert!(kc::shape(&r) == (0, 1, false, 0), "`.c:not(%p)` becomes `.c`"),
        _ => assert!(false, "`.c:not(%p)` is kept"),
    }
}
#[kani::proof]
#[kani::unwind(5)]
fn c22_pseudo_is_keeps_placeholder_free_alternatives() {
    let p = kp::with_selector("is", SelectorSet { s: vec![simple(false), simple(true)] });
    match p.no_placeholder() {
        Opt::Some(r) => {
            assert!(kp::name_of(&r) == "is");
            match kp::selector_arg(&r) {
                Some(a) => assert!(a.s.len() == 1 && a.s[0] == simple(false), ":is(.c, %p) becomes :is(.c)"),
                None => assert!(false, "the selector argument is kept"),
            }
        }
        _ => assert!(false, ":is(.c, %p) is kept"),
    }
}
/// … and in every other pseudo selector that takes a selector argument
/// (`::slotted(%p)`, `:nth-child(2n of %p)`, …): it matches nothing.
#[kani::proof]
#[kani::unwind(8)]
fn c22_pseudo_other_selector_argument_with_placeholder_matches_nothing() {
    let p = kp::with_selector("slotted", SelectorSet { s: vec![simple(true)] });
    assert!(matches!(p.no_placeholder(), Opt::None), "::slotted(%p) matches nothing");
    let c = kc::mk(false, false, true, vec![p]);
    assert!(matches!(c.no_placeholder(), Opt::None), "`.c::slotted(%p)` is removed");
}
/// A compound with two pseudo selectors: `:not(%p)` is dropped, the other
/// one stays (`.c:not(%p):hover` becomes `.c:hover`).
#[kani::proof]
#[kani::unwind(8)]
fn c22_compound_not_placeholder_keeps_other_pseudos() {
    let p1 = kp::with_selector("not", SelectorSet { s: vec![simple(true)] });
    let p2 = kp::plain("hover");
    let c = kc::mk(false, false, true, vec![p1, p2]);
    match c.no_placeholder() {
        Opt::Some(r) => assert!(kc::shape(&r) == (0, 1, false, 1), "`.c:not(%p):hover` becomes `.c:hover`"),
        _ => assert!(false, "`.c:not(%p):hover` is kept"),
    }
}
#[kani::proof]
#[kani::unwind(10)]
fn c22_pseudo_without_selector_argument_is_kept() {
    let p = kp::plain("hover");
    match p.no_placeholder() {
        Opt::Some(r) => assert!(r == p, ":hover is kept unchanged"),
        _ => assert!(false, ":hover is kept"),
    }
}

#[kani::proof]
#[kani::unwind(4)]
fn cover_selectors() {
    let p: bool = kani::any();
    let c = kc::mk(false, p, true, vec![]);
    kani::cover!(kc::shape(&c).0 == 1);
    kani::cover!(kc::shape(&c).0 == 0);
}
