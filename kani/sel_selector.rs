//! Proof harnesses for rsass/src/css/selectors/{selector,selectorset,pseudo}.rs
//! — unit U-selectors (C22): the real `no_placeholder` functions on small
//! concrete selector structures (bounded).  The fold they share
//! (Opt::collect_pos / collect_neg) is under contract in opt.rs.
use super::super::compound::kani_verif as kc;
use super::super::pseudo::kani_verif as kp;
use super::*;

fn sel(compound: CompoundSelector, rel: Option<(RelKind, Selector)>) -> Selector {
    Selector { rel_of: rel.map(Box::new), compound }
}
/// `.c` / `%p` / `#i.c`
fn simple(placeholder: bool) -> Selector {
    sel(kc::mk(false, placeholder, true, vec![]), None)
}

/// C22: a complex selector whose ancestor part contains a placeholder is
/// removed; without placeholders it is kept unchanged.
#[kani::proof]
#[kani::unwind(4)]
fn c22_selector_placeholder_in_ancestor_is_removed() {
    // `%p .c`
    let s = sel(kc::mk(false, false, true, vec![]), Some((RelKind::Ancestor, simple(true))));
    assert!(matches!(s.no_placeholder(), Opt::None), "`%p .c` is removed");
}
#[kani::proof]
#[kani::unwind(4)]
fn c22_selector_without_placeholder_is_kept() {
    // `.c > .c`
    let s = sel(kc::mk(false, false, true, vec![]), Some((RelKind::Parent, simple(false))));
    match s.no_placeholder() {
        Opt::Some(r) => assert!(r == s, "a complex selector without placeholder is kept unchanged"),
        _ => assert!(false, "a complex selector without placeholder is kept"),
    }
}
/// C22: in a selector list, exactly the complex selectors with a
/// placeholder are removed; the rest keep their order; a list whose
/// selectors are all removed is not emitted (Opt::None).
#[kani::proof]
#[kani::unwind(5)]
fn c22_selector_list_drops_placeholder_members() {
    // `%p, .c, #i.c`
    let third = sel(kc::mk(true, false, true, vec![]), None);
    let set = SelectorSet { s: vec![simple(true), simple(false), third.clone()] };
    match set.no_placeholder() {
        Opt::Some(r) => {
            assert!(r.s.len() == 2, "exactly the selector with a placeholder is removed");
            assert!(r.s[0] == simple(false) && r.s[1] == third, "the remaining selectors keep text and order");
        }
        _ => assert!(false, "a list with placeholder-free members is emitted"),
    }
}
#[kani::proof]
#[kani::unwind(5)]
fn c22_selector_list_all_removed() {
    let set = SelectorSet { s: vec![simple(true), simple(true)] };
    assert!(matches!(set.no_placeholder(), Opt::None), "a rule whose selectors are all removed is not emitted");
}
/// C22 inside pseudo-class arguments, as selector semantics require:
/// `:is(%p)` matches nothing (the enclosing selector is removed),
/// `:not(%p)` matches everything (the pseudo-class is dropped, the enclosing
/// selector stays), `:is(.c, %p)` keeps `.c`.
#[kani::proof]
#[kani::unwind(5)]
fn c22_pseudo_is_with_only_placeholders_matches_nothing() {
    let p = kp::with_selector("is", SelectorSet { s: vec![simple(true)] });
    assert!(matches!(p.no_placeholder(), Opt::None), ":is(%p) matches nothing");
    let c = kc::mk(false, false, true, vec![p]);
    assert!(matches!(c.no_placeholder(), Opt::None), "`.c:is(%p)` is removed");
}
#[kani::proof]
#[kani::unwind(5)]
fn c22_pseudo_not_with_only_placeholders_matches_anything() {
    let p = kp::with_selector("not", SelectorSet { s: vec![simple(true)] });
    assert!(matches!(p.no_placeholder(), Opt::Any), ":not(%p) matches anything");
    let c = kc::mk(false, false, true, vec![p]);
    match c.no_placeholder() {
        Opt::Some(r) => assert!(kc::shape(&r) == (0, 1, false, 0), "`.c:not(%p)` becomes `.c`"),
        _ => assert!(false, "`.c:not(%p)` is kept"),
    }
}
#[kani::proof]
#[kani::unwind(5)]
fn c22_pseudo_is_keeps_placeholder_free_alternatives() {
    let p = kp::with_selector("is", SelectorSet { s: vec![simple(false), simple(true)] });
    match p.no_placeholder() {
        Opt::Some(r) => {
            assert!(kp::name_of(&r) == "is");
            match kp::selector_arg(&r) {
                Some(a) => assert!(a.s.len() == 1 && a.s[0] == simple(false), ":is(.c, %p) becomes :is(.c)"),
                None => assert!(false, "the selector argument is kept"),
            }
        }
        _ => assert!(false, ":is(.c, %p) is kept"),
    }
}
/// … and in every other pseudo selector that takes a selector argument
/// (`::slotted(%p)`, `:nth-child(2n of %p)`, …): it matches nothing.
#[kani::proof]
#[kani::unwind(8)]
fn c22_pseudo_other_selector_argument_with_placeholder_matches_nothing() {
    let p = kp::with_selector("slotted", SelectorSet { s: vec![simple(true)] });
    assert!(matches!(p.no_placeholder(), Opt::None), "::slotted(%p) matches nothing");
    let c = kc::mk(false, false, true, vec![p]);
    assert!(matches!(c.no_placeholder(), Opt::None), "`.c::slotted(%p)` is removed");
}
/// A compound with two pseudo selectors: `:not(%p)` is dropped, the other
/// one stays (`.c:not(%p):hover` becomes `.c:hover`).
#[kani::proof]
#[kani::unwind(8)]
fn c22_compound_not_placeholder_keeps_other_pseudos() {
    let p1 = kp::with_selector("not", SelectorSet { s: vec![simple(true)] });
    let p2 = kp::plain("hover");
    let c = kc::mk(false, false, true, vec![p1, p2]);
    match c.no_placeholder() {
        Opt::Some(r) => assert!(kc::shape(&r) == (0, 1, false, 1), "`.c:not(%p):hover` becomes `.c:hover`"),
        _ => assert!(false, "`.c:not(%p):hover` is kept"),
    }
}
#[kani::proof]
#[kani::unwind(10)]
fn c22_pseudo_without_selector_argument_is_kept() {
    let p = kp::plain("hover");
    match p.no_placeholder() {
        Opt::Some(r) => assert!(r == p, ":hover is kept unchanged"),
        _ => assert!(false, ":hover is kept"),
    }
}

#[kani::proof]
#[kani::unwind(4)]
fn cover_selectors() {
    let p: bool = kani::any();
    let c = kc::mk(false, p, true, vec![]);
    kani::cover!(kc::shape(&c).0 == 1);
    kani::cover!(kc::shape(&c).0 == 0);
}

// ---- C22, level by level without recursion.  `no_placeholder` is four
// mutually recursive functions (SelectorSet -> Selector -> CompoundSelector
// -> Pseudo -> SelectorSet); on the real types CBMC does not finish (the
// harnesses above are mostly attempts).  Here each function's complete body
// is extracted UNCHANGED into a module in which the type one level DOWN is a
// stand-in whose `no_placeholder` gives a result chosen by the harness — the
// callee is replaced by what its contract allows (Some / Any / None), the
// caller's own text is what is checked.  `Opt` is the real one. ----
pub(crate) mod levels {
    pub(crate) use crate::css::selectors::opt::Opt;

    /// what the level below reports: 0 = contains a placeholder (None),
    /// 1 = matches anything (Any), else kept — as a transformed copy
    /// (+100), so that "the transformed part is used" can be told apart
    /// from "the original was kept".
    fn below<T>(code: u8, mk: impl Fn(u8) -> T) -> Opt<T> {
        match code {
            0 => Opt::None,
            1 => Opt::Any,
            c => Opt::Some(mk(c.wrapping_add(100))),
        }
    }

    pub mod set_level {
        use super::{Opt, below};
        #[derive(Clone, PartialEq, Debug)]
        pub struct Selector(pub u8);
        impl Selector {
            pub fn no_placeholder(&self) -> Opt<Selector> {
                below(self.0, Selector)
            }
        }
        #[derive(Clone, PartialEq, Debug)]
        pub struct SelectorSet {
            pub s: Vec<Selector>,
        }
        impl SelectorSet {
//@range file=rsass/src/css/selectors/selectorset.rs impl="impl SelectorSet" fn=no_placeholder
//@  header: pub fn no_placeholder(&self) -> Opt<Self>
//@end
        }
    }

    pub mod selector_level {
        use super::{Opt, below};
        #[derive(Clone, Copy, PartialEq, Debug)]
        pub struct RelKind(pub u8);
        /// the selector this one is relative to (one level down)
        #[derive(Clone, PartialEq, Debug)]
        pub struct Rel(pub u8);
        impl Rel {
            pub fn no_placeholder(&self) -> Opt<Rel> {
                below(self.0, Rel)
            }
        }
        #[derive(Clone, PartialEq, Debug)]
        pub struct CompoundSelector {
            pub code: u8,
            pub empty: bool,
        }
        impl Default for CompoundSelector {
            fn default() -> Self {
                CompoundSelector { code: 255, empty: true }
            }
        }
        impl CompoundSelector {
            pub fn no_placeholder(&self) -> Opt<CompoundSelector> {
                let empty = self.empty;
                below(self.code, |code| CompoundSelector { code, empty })
            }
            pub fn is_empty(&self) -> bool {
                self.empty
            }
        }
        #[derive(Clone, PartialEq, Debug)]
        pub struct Selector {
            pub rel_of: Option<Box<(RelKind, Rel)>>,
            pub compound: CompoundSelector,
        }
        impl Selector {
//@range file=rsass/src/css/selectors/selector.rs impl="impl Selector" fn=no_placeholder
//@  header: pub fn no_placeholder(&self) -> Opt<Self>
//@end
//@range file=rsass/src/css/selectors/selector.rs impl="impl Selector" fn=is_local_empty
//@  header: fn is_local_empty(&self) -> bool
//@end
        }
    }

    pub mod compound_level {
        use super::{Opt, below};
        #[derive(Clone, PartialEq, Debug)]
        pub struct Pseudo {
            pub code: u8,
            pub element: bool,
        }
        impl Pseudo {
            pub fn no_placeholder(&self) -> Opt<Pseudo> {
                let element = self.element;
                below(self.code, |code| Pseudo { code, element })
            }
            pub fn is_element(&self) -> bool {
                self.element
            }
        }
        #[derive(Clone, PartialEq, Debug)]
        pub struct CompoundSelector {
            pub placeholders: Vec<u8>,
            pub pseudo: Vec<Pseudo>,
            /// everything else (element, id, classes, attributes)
            pub other: u8,
        }
        impl CompoundSelector {
//@range file=rsass/src/css/selectors/compound.rs impl="impl CompoundSelector" fn=no_placeholder
//@  header: pub fn no_placeholder(&self) -> Opt<Self>
//@end
        }
    }

    pub mod pseudo_level {
        use super::Opt;
        /// the selector argument (one level down): what its no_placeholder
        /// and no_leading_combinator report is chosen by the harness
        #[derive(Clone, PartialEq, Debug)]
        pub struct SelectorSet {
            pub s: Vec<u8>,
            pub np: u8,
            pub nlc: u8,
            pub stage: u8,
        }
        impl SelectorSet {
            fn step(&self, code: u8, stage: u8) -> Opt<SelectorSet> {
                match code {
                    0 => Opt::None,
                    1 => Opt::Any,
                    _ => Opt::Some(SelectorSet { s: self.s.clone(), np: self.np, nlc: self.nlc, stage: self.stage | stage }),
                }
            }
            pub fn no_placeholder(&self) -> Opt<SelectorSet> {
                self.step(self.np, 1)
            }
            pub fn no_leading_combinator(&self) -> Opt<SelectorSet> {
                self.step(self.nlc, 2)
            }
        }
        #[derive(Clone, PartialEq, Debug)]
        pub enum Arg {
            Selector(SelectorSet),
            Other(u8),
        }
        #[derive(Clone, PartialEq, Debug)]
        pub struct Pseudo {
            pub name: String,
            pub arg: Arg,
            pub element: bool,
        }
//@item file=rsass/src/css/selectors/pseudo.rs kind=fn name=name_in nth=2
//@end
        impl Pseudo {
//@range file=rsass/src/css/selectors/pseudo.rs impl="impl Pseudo" fn=no_placeholder
//@  header: pub fn no_placeholder(&self) -> Opt<Self>
//@end
//@range file=rsass/src/css/selectors/pseudo.rs impl="impl Pseudo" fn=name_in
//@  header: fn name_in(&self, names: &[&str]) -> bool
//@end
        }
    }
}

fn code3() -> u8 {
    let c: u8 = kani::any();
    kani::assume(c <= 4);
    c
}
/// C22 (selector list level): a complex selector that contains a
/// placeholder is removed from the list; the remaining selectors keep their
/// (transformed) text and their ORDER; a list of which nothing remains is
/// "no selector" (the rule is not emitted).
#[kani::proof]
#[kani::unwind(6)]
fn c22_level_selector_list_drops_placeholders_keeps_order() {
    use levels::set_level::{Selector as S, SelectorSet};
    use levels::Opt;
    let (a, b, c) = (code3(), code3(), code3());
    kani::assume(a != 1 && b != 1 && c != 1);
    let set = SelectorSet { s: vec![S(a), S(b), S(c)] };
    let mut want: Vec<S> = Vec::new();
    for x in [a, b, c] {
        if x != 0 {
            want.push(S(x + 100));
        }
    }
    match set.no_placeholder() {
        Opt::Some(r) => assert!(!want.is_empty() && r.s == want, "the selectors without placeholder remain, transformed, in their order"),
        Opt::None => assert!(want.is_empty(), "no selector only if every selector contained a placeholder"),
        Opt::Any => assert!(false, "a list without match-anything members is not match-anything"),
    }
}
/// C22 (complex selector level): a placeholder in the compound or in the
/// part the selector is relative to removes the selector; a compound that
/// only had `:not(%p)` becomes the empty (match-anything) compound and the
/// relation is KEPT; otherwise both parts are the transformed ones.
#[kani::proof]
#[kani::unwind(6)]
fn c22_level_complex_selector() {
    use levels::selector_level::{CompoundSelector as C, Rel, RelKind, Selector};
    use levels::Opt;
    let comp = code3();
    let rel: Option<u8> = if kani::any() { Some(code3()) } else { None };
    // a non-empty compound (the deprecated "empty compound with a relation" input is not part of the property)
    let s = Selector { rel_of: rel.map(|r| Box::new((RelKind(7), Rel(r)))), compound: C { code: comp, empty: false } };
    let r = s.no_placeholder();
    if comp == 0 || rel == Some(0) {
        assert!(matches!(r, Opt::None), "a placeholder in the compound or in the relative part removes the selector");
    } else {
        match r {
            Opt::Some(t) => {
                if comp == 1 {
                    assert!(t.compound == C::default(), "only :not(%p): the compound matches anything");
                } else {
                    assert!(t.compound == C { code: comp + 100, empty: false }, "the transformed compound is used");
                }
                match rel {
                    None | Some(1) => assert!(t.rel_of.is_none(), "no relation, or relative to match-anything: no relation"),
                    Some(c) => assert!(t.rel_of == Some(Box::new((RelKind(7), Rel(c + 100)))), "the relation is kept, with the transformed relative part"),
                }
            }
            _ => assert!(false, "a selector without placeholder is kept"),
        }
    }
}
/// C22 (compound level): a compound with a placeholder is removed; so is one
/// of whose pseudo selectors any is removed (also a pseudo-ELEMENT with a
/// selector argument); match-anything pseudos disappear; the rest is kept,
/// transformed, in order, and the other parts are unchanged.
#[kani::proof]
#[kani::unwind(6)]
fn c22_level_compound_selector() {
    use levels::compound_level::{CompoundSelector as C, Pseudo as P};
    use levels::Opt;
    let (a, b) = (code3(), code3());
    let (ea, eb): (bool, bool) = (kani::any(), kani::any());
    let has_placeholder: bool = kani::any();
    let c = C { placeholders: if has_placeholder { vec![9] } else { vec![] }, pseudo: vec![P { code: a, element: ea }, P { code: b, element: eb }], other: 42 };
    let r = c.no_placeholder();
    if has_placeholder || a == 0 || b == 0 {
        assert!(matches!(r, Opt::None), "a placeholder, or a removed pseudo selector (class or element), removes the compound");
    } else {
        let mut want: Vec<P> = Vec::new();
        if a != 1 {
            want.push(P { code: a + 100, element: ea });
        }
        if b != 1 {
            want.push(P { code: b + 100, element: eb });
        }
        match r {
            Opt::Some(t) => {
                assert!(t.pseudo == want, "the remaining pseudo selectors, transformed, in order");
                assert!(t.other == 42 && t.placeholders.is_empty(), "the other parts are unchanged");
            }
            _ => assert!(false, "a compound without placeholder is kept"),
        }
    }
}
/// C22 (pseudo level): for EVERY pseudo selector with a selector argument —
/// not only the well-known names — a placeholder inside the argument counts:
/// `:not(%p)` matches anything, any other `:x(%p)` matches nothing; an
/// argument that is kept is the TRANSFORMED one; `:is()` additionally drops
/// leading combinators.
fn pseudo_case(name: &str) {
    use levels::pseudo_level::{Arg, Pseudo, SelectorSet};
    use levels::Opt;
    let (np, nlc) = (code3(), code3());
    let element: bool = kani::any();
    let arg = SelectorSet { s: vec![1, 2], np, nlc, stage: 0 };
    let p = Pseudo { name: String::from(name), arg: Arg::Selector(arg.clone()), element };
    let is_not = name == "not";
    let is_is = name == "is";
    let r = p.no_placeholder();
    let want_stage = if is_is { 3 } else { 1 };
    let expect_some = np >= 2 && (!is_is || nlc >= 2);
    match r {
        Opt::Some(t) => {
            assert!(expect_some, "kept only if the argument is kept");
            assert!(t.name == name && t.element == element, "name and kind unchanged");
            assert!(t.arg == Arg::Selector(SelectorSet { stage: want_stage, ..arg }), "the argument is the transformed one");
        }
        Opt::Any => assert!((np == 0 && is_not) || (np == 1 && !is_not) || (np >= 2 && is_is && nlc == 1), ":not(%p) (or an argument matching anything) matches anything"),
        Opt::None => assert!((np == 0 && !is_not) || (np == 1 && is_not) || (np >= 2 && is_is && nlc == 0), "a placeholder in the argument of any other pseudo selector removes it"),
    }
}
#[kani::proof]
#[kani::unwind(12)]
fn c22_level_pseudo_not() {
    pseudo_case("not");
}
#[kani::proof]
#[kani::unwind(12)]
fn c22_level_pseudo_is() {
    pseudo_case("is");
}
#[kani::proof]
#[kani::unwind(12)]
fn c22_level_pseudo_where() {
    pseudo_case("where");
}
#[kani::proof]
#[kani::unwind(12)]
fn c22_level_pseudo_slotted() {
    pseudo_case("slotted");
}
/// C22 (pseudo level): a pseudo selector without selector argument is kept
/// as it is.
#[kani::proof]
#[kani::unwind(12)]
fn c22_level_pseudo_plain() {
    use levels::pseudo_level::{Arg, Pseudo};
    use levels::Opt;
    let p = Pseudo { name: String::from("hover"), arg: Arg::Other(3), element: kani::any() };
    match p.no_placeholder() {
        Opt::Some(t) => assert!(t == p, "unchanged"),
        _ => assert!(false, "a plain pseudo selector is kept"),
    }
}
