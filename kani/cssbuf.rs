//! Contracts and proof harnesses for rsass/src/output/cssbuf.rs
//! Units U-cssbuf (C07 brace bookkeeping), U-indent-callers (C01).
//!
//! `&mut self` methods on a type holding a `Vec<u8>`: Kani's `modifies`
//! clauses cannot name the vector's heap buffer, so the contracts are written
//! as assume(pre) / call / assert(post) over the whole observable state
//! (buffer bytes, indent, format) — same obligations, no modular reuse.
use super::*;
use crate::output::Style;

const MAXBUF: usize = 4;

/// `Format::get_indent`'s allocation path (`long_indent`, > 80 spaces) is
/// replaced by its contract in every harness here (modular: the contract is
/// proved in format.rs), which keeps these harnesses loop-free.
///
/// The output style is CONCRETE in every harness (each harness exists once
/// per style, see `per_style!`): with a symbolic style CBMC has to copy from
/// a symbolic choice of two string literals (`"}\n"` / `"}"`), which it
/// models imprecisely (spurious counterexample, does not replay natively).
fn format_of(style: Style) -> Format {
    Format { style, precision: kani::any() }
}

macro_rules! per_style {
    ($body:ident, $e:ident, $c:ident, $i:ident) => {
        #[kani::proof]
        #[kani::stub(crate::output::format::long_indent, crate::output::format::kani_verif::long_indent_by_contract)]
        #[kani::unwind(10)]
        fn $e() {
            $body(Style::Expanded)
        }
        #[kani::proof]
        #[kani::stub(crate::output::format::long_indent, crate::output::format::kani_verif::long_indent_by_contract)]
        #[kani::unwind(10)]
        fn $c() {
            $body(Style::Compressed)
        }
        #[kani::proof]
        #[kani::stub(crate::output::format::long_indent, crate::output::format::kani_verif::long_indent_by_contract)]
        #[kani::unwind(10)]
        fn $i() {
            $body(Style::Introspection)
        }
    };
}

/// A CssBuf whose buffer is any byte string of length <= MAXBUF.  The
/// functions under contract only inspect the last two bytes, so this covers
/// every suffix situation; the (unread) prefix is the bounded part.
fn any_cssbuf(style: Style, max_indent: usize) -> CssBuf {
    let bytes: [u8; MAXBUF] = kani::any();
    let n: usize = kani::any();
    kani::assume(n <= MAXBUF);
    let indent: usize = kani::any();
    kani::assume(indent <= max_indent);
    CssBuf { buf: bytes[..n].to_vec(), format: format_of(style), indent }
}

/// Slice equality stated over a nondeterministic index (universal when
/// asserted); avoids CBMC's memcmp model on possibly-dangling empty slices.
fn same(a: &[u8], b: &[u8]) -> bool {
    let i: usize = kani::any();
    a.len() == b.len() && (i >= a.len() || a[i] == b[i])
}

/// The indentation string that belongs to `indent` (spec side).
fn is_indent(s: &[u8], indent: usize) -> bool {
    let i: usize = kani::any();
    s.len() == indent + 1 && (i >= s.len() || s[i] == if i == 0 { b'\n' } else { b' ' })
}

/// C07: start_block appends exactly " {\n" (or "{" compressed), touches
/// nothing before it, and raises the indent by 2.
per_style!(c07_cssbuf_start_block, c07_cssbuf_start_block_expanded, c07_cssbuf_start_block_compressed, c07_cssbuf_start_block_introspection);
fn c07_cssbuf_start_block(style: Style) {
    let mut b = any_cssbuf(style, usize::MAX - 2);
    let old = b.buf.clone();
    let old_indent = b.indent;
    let compressed = b.format.is_compressed();
    b.start_block();
    let tail: &[u8] = if compressed { b"{" } else { b" {\n" };
    assert!(b.buf.len() == old.len() + tail.len(), "start_block: length");
    assert!(same(&b.buf[..old.len()], &old), "start_block: prefix untouched (frame)");
    assert!(same(&b.buf[old.len()..], tail), "start_block: appends exactly the opener");
    assert!(b.indent == old_indent + 2, "start_block: indent += 2");
}

/// C07: end_block emits exactly one `}`: after removing at most one trailing
/// newline (and, compressed, at most one `;`), it appends the indentation
/// (unless directly after `{`) and `}` + newline (expanded) / `}`
/// (compressed); nothing before the removed suffix changes; indent -= 2.
per_style!(c07_cssbuf_end_block, c07_cssbuf_end_block_expanded, c07_cssbuf_end_block_compressed, c07_cssbuf_end_block_introspection);
fn c07_cssbuf_end_block(style: Style) {
    let mut b = any_cssbuf(style, 10);
    kani::assume(b.indent >= 2); // balanced call strings: a block was opened
    let old = b.buf.clone();
    let old_indent = b.indent;
    let compressed = b.format.is_compressed();
    b.end_block();
    assert!(b.indent == old_indent - 2, "end_block: indent -= 2");
    // spec: compute the kept prefix length
    let mut keep = old.len();
    if keep > 0 && old[keep - 1] == b'\n' {
        keep -= 1;
    }
    if compressed && keep > 0 && old[keep - 1] == b';' {
        keep -= 1;
    }
    assert!(b.buf.len() >= keep && same(&b.buf[..keep], &old[..keep]), "end_block: kept prefix untouched (frame)");
    let added = &b.buf[keep..];
    let after_open = keep > 0 && old[keep - 1] == b'{';
    if compressed {
        assert!(same(added, b"}"), "end_block compressed: exactly one closing brace");
    } else {
        let closer: &[u8] = b"}\n";
        assert!(added.len() >= 2 && same(&added[added.len() - 2..], closer), "end_block: ends with brace newline");
        let ind = &added[..added.len() - 2];
        if after_open {
            assert!(ind.is_empty(), "end_block: no indent right after an opener");
        } else {
            assert!(is_indent(ind, old_indent - 2), "end_block: newline + indent spaces before the brace");
        }
    }
    // exactly one brace byte among the added bytes
    let i: usize = kani::any();
    kani::assume(i < added.len());
    assert!((added[i] == b'}') == (i == added.len() - if compressed { 1 } else { 2 }), "end_block: one brace only");
    assert!(added[i] != b'{', "end_block: adds no opener");
}

/// C07: pop_nl removes exactly one trailing newline, if any.
per_style!(c07_cssbuf_pop_nl, c07_cssbuf_pop_nl_expanded, c07_cssbuf_pop_nl_compressed, c07_cssbuf_pop_nl_introspection);
fn c07_cssbuf_pop_nl(style: Style) {
    let mut b = any_cssbuf(style, usize::MAX);
    let old = b.buf.clone();
    b.pop_nl();
    if old.last() == Some(&b'\n') {
        assert!(same(&b.buf, &old[..old.len() - 1]), "pop_nl: removes one newline");
    } else {
        assert!(same(&b.buf, &old), "pop_nl: otherwise unchanged");
    }
}
/// C07: opt_nl adds a newline only in non-compressed, non-empty buffers not
/// already ending in a blank line; never removes anything.
per_style!(c07_cssbuf_opt_nl, c07_cssbuf_opt_nl_expanded, c07_cssbuf_opt_nl_compressed, c07_cssbuf_opt_nl_introspection);
fn c07_cssbuf_opt_nl(style: Style) {
    let mut b = any_cssbuf(style, usize::MAX);
    let old = b.buf.clone();
    let compressed = b.format.is_compressed();
    b.opt_nl();
    assert!(b.buf.len() >= old.len() && same(&b.buf[..old.len()], &old), "opt_nl: never removes");
    let added = &b.buf[old.len()..];
    if compressed {
        assert!(added.is_empty(), "compressed output gets no line break");
    } else {
        assert!(added.is_empty() || same(added, b"\n"), "opt_nl: at most one newline");
        let blank = old.is_empty() || (old.len() >= 2 && old[old.len() - 1] == b'\n' && old[old.len() - 2] == b'\n');
        assert!(added.is_empty() == blank, "opt_nl: newline unless empty or already a blank line");
    }
}
/// C07: add_one picks the compressed text exactly in compressed mode.
per_style!(c07_cssbuf_add_one, c07_cssbuf_add_one_expanded, c07_cssbuf_add_one_compressed, c07_cssbuf_add_one_introspection);
fn c07_cssbuf_add_one(style: Style) {
    let mut b = any_cssbuf(style, usize::MAX);
    let old = b.buf.clone();
    b.add_one("}\n", "}");
    let want: &[u8] = if b.format.is_compressed() { b"}" } else { b"}\n" };
    assert!(b.buf.len() >= old.len() && same(&b.buf[..old.len()], &old), "add_one: prefix untouched");
    assert!(same(&b.buf[old.len()..], want), "add_one: picks the text for the style");
}

/// C01 (caller obligation of get_indent's precondition): do_indent must not
/// panic for any indentation reachable within the property's bound of 64
/// nested blocks (indent = 2 * depth <= 128).
per_style!(c01_cssbuf_do_indent_depth64, c01_cssbuf_do_indent_depth64_expanded, c01_cssbuf_do_indent_depth64_compressed, c01_cssbuf_do_indent_depth64_introspection);
fn c01_cssbuf_do_indent_depth64(style: Style) {
    let mut b = any_cssbuf(style, 128);
    b.do_indent();
}
per_style!(c01_cssbuf_do_indent_no_nl_depth64, c01_cssbuf_do_indent_no_nl_depth64_expanded, c01_cssbuf_do_indent_no_nl_depth64_compressed, c01_cssbuf_do_indent_no_nl_depth64_introspection);
fn c01_cssbuf_do_indent_no_nl_depth64(style: Style) {
    let mut b = any_cssbuf(style, 128);
    b.do_indent_no_nl();
}
/// C01: end_block at depth <= 64 (indent-2 <= 126) does not panic.
per_style!(c01_cssbuf_end_block_depth64, c01_cssbuf_end_block_depth64_expanded, c01_cssbuf_end_block_depth64_compressed, c01_cssbuf_end_block_depth64_introspection);
fn c01_cssbuf_end_block_depth64(style: Style) {
    let mut b = any_cssbuf(style, 128);
    kani::assume(b.indent >= 2);
    b.end_block();
}
/// C07: do_indent writes newline + indent spaces (expanded) or nothing.
per_style!(c07_cssbuf_do_indent_text, c07_cssbuf_do_indent_text_expanded, c07_cssbuf_do_indent_text_compressed, c07_cssbuf_do_indent_text_introspection);
fn c07_cssbuf_do_indent_text(style: Style) {
    let mut b = any_cssbuf(style, 80);
    let old = b.buf.clone();
    b.do_indent();
    let added = &b.buf[old.len()..];
    if b.format.is_compressed() {
        assert!(added.is_empty());
    } else {
        assert!(is_indent(added, b.indent));
    }
}

per_style!(cover_cssbuf, cover_cssbuf_expanded, cover_cssbuf_compressed, cover_cssbuf_introspection);
fn cover_cssbuf(style: Style) {
    let b = any_cssbuf(style, 128);
    kani::cover!(b.buf.len() == MAXBUF && b.buf[MAXBUF - 1] == b';');
    kani::cover!(b.indent == 128);
}


// ---- C07: "compressed output has no line break": `Property::write`
// (css/rule.rs), the complete body extracted unchanged, run on the REAL
// CssBuf; the declaration's value is a stand-in whose `format(..)
// .to_string()` gives a text chosen by the harness (the real rendering goes
// through core::fmt, out of CBMC's reach).  The stand-in has the real
// Value's shape as far as a writer can see it (a `Literal` with `quotes()`,
// and other kinds). ----
pub(crate) mod declaration {
    use crate::output::{CssBuf, Format};
    use crate::value::Quotes;
    pub struct Lit(pub Quotes);
    impl Lit {
        pub fn quotes(&self) -> Quotes {
            self.0
        }
    }
    pub enum Value {
        Literal(Lit),
        /// any other kind (a list, say)
        Other,
    }
    pub struct Formatted(&'static str);
    impl Formatted {
        #[allow(clippy::inherent_to_string)]
        pub fn to_string(&self) -> String {
            String::from(self.0)
        }
    }
    impl Value {
        /// the rendered text always contains a raw line break here
        pub fn format(&self, _format: Format) -> Formatted {
            Formatted("a\nb")
        }
    }
    pub struct Property {
        pub name: String,
        pub value: Value,
    }
    impl Property {
//@range file=rsass/src/css/rule.rs impl="impl Property" fn=write
//@  header: pub fn write(&self, buf: &mut CssBuf)
//@end
    }
}
fn declaration_case(style: Style, value: declaration::Value) -> Vec<u8> {
    let mut buf = CssBuf::new(Format { style, precision: 5 });
    declaration::Property { name: String::from("n"), value }.write(&mut buf);
    buf.take()
}
fn line_breaks(out: &[u8]) -> usize {
    let mut n = 0;
    let mut i = 0;
    while i < out.len() {
        if out[i] == b'\n' {
            n += 1;
        }
        i += 1;
    }
    n
}
/// C07: a declaration is written on ONE line whatever kind of value renders
/// to a text with a line break in it (compressed: no line break at all;
/// expanded: only the one that ends the declaration).
fn compressed_declaration(value: declaration::Value) {
    let out = declaration_case(Style::Compressed, value);
    assert!(line_breaks(&out) == 0, "compressed: no line break in a declaration");
    assert!(out.len() >= 6 && out[0] == b'n' && out[1] == b':' && out[2] == b'a' && out[out.len() - 2] == b'b' && out[out.len() - 1] == b';', "compressed: name, colon, the value's text, semicolon");
}
#[kani::proof]
#[kani::stub(crate::output::format::long_indent, crate::output::format::kani_verif::long_indent_by_contract)]
#[kani::unwind(10)]
fn c07_declaration_value_has_no_line_break_compressed() {
    use crate::value::Quotes;
    compressed_declaration(declaration::Value::Other);
    compressed_declaration(declaration::Value::Literal(declaration::Lit(Quotes::None)));
    compressed_declaration(declaration::Value::Literal(declaration::Lit(Quotes::Double)));
}
#[kani::proof]
#[kani::stub(crate::output::format::long_indent, crate::output::format::kani_verif::long_indent_by_contract)]
#[kani::unwind(10)]
fn c07_declaration_value_has_no_line_break_expanded() {
    let out = declaration_case(Style::Expanded, declaration::Value::Other);
    assert!(line_breaks(&out) == 1 && out[out.len() - 1] == b'\n', "expanded: the only line break is the one that ends the declaration");
    assert!(out.len() >= 8 && out[0] == b'n' && out[1] == b':' && out[out.len() - 2] == b';', "expanded: name, colon, value, semicolon");
}
