//! Proof harnesses for rsass/src/css/comment.rs
use super::*;
