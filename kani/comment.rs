//! Proof harnesses for rsass/src/css/comment.rs
//! Unit U-comment (C36, C07): `Comment::write` on the real `CssBuf`, for
//! concrete comment texts (bounded).  Found necessary after the repair that
//! keeps `/*!` comments in compressed style: that made `Comment::write`
//! reachable in compressed style, where its re-indentation used to insert a
//! line break between every two characters.
use super::*;
use crate::output::{Format, Style};

fn written(text: &str, style: Style, depth: usize) -> Vec<u8> {
    let mut buf = CssBuf::new(Format { style, precision: 5 });
    let mut d = 0;
    while d < depth {
        buf.start_block();
        d += 1;
    }
    let before = buf.len();
    Comment(String::from(text)).write(&mut buf);
    let out = buf.take();
    out[before..].to_vec()
}

/// C36 / C07: a `/*!` comment kept in compressed style is written as one
/// comment token with its text and without a line break — also a
/// multi-line one, whatever its indentation.
#[kani::proof]
#[kani::stub(crate::output::format::long_indent, crate::output::format::kani_verif::long_indent_by_contract)]
#[kani::unwind(14)]
fn c36_comment_write_compressed_multi_line() {
    // indented deeper than the block it is in (depth 0)
    let out = written("! a\n   b ", Style::Compressed, 0);
    assert!(out == b"/*! a    b */", "compressed: the text on one line, nothing inserted, nothing lost");
}
#[kani::proof]
#[kani::stub(crate::output::format::long_indent, crate::output::format::kani_verif::long_indent_by_contract)]
#[kani::unwind(14)]
fn c36_comment_write_compressed_single_line() {
    let out = written("! keep ", Style::Compressed, 1);
    assert!(out == b"/*! keep */", "compressed: /*! keep */");
}
/// C36: in expanded style the comment is emitted with its text, on its own
/// line(s).
#[kani::proof]
#[kani::stub(crate::output::format::long_indent, crate::output::format::kani_verif::long_indent_by_contract)]
#[kani::unwind(14)]
fn c36_comment_write_expanded_single_line() {
    let out = written(" plain ", Style::Expanded, 0);
    assert!(out == b"/* plain */\n", "expanded: /* plain */ and a newline");
}
/// C36: a loud comment whose text merely CONTAINS a `#` (here after a
/// space) is an ordinary loud comment and is emitted in expanded style.
#[kani::proof]
#[kani::stub(crate::output::format::long_indent, crate::output::format::kani_verif::long_indent_by_contract)]
#[kani::unwind(14)]
fn c36_comment_write_expanded_hash_not_first() {
    let out = written(" # x ", Style::Expanded, 0);
    assert!(out == b"/* # x */\n", "expanded: /* # x */ and a newline");
}
