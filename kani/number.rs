//! Contracts and proof harnesses for rsass/src/value/number.rs
//! Unit U-number (C12 ordering laws, C01 into_integer).
use super::*;
use std::cmp::Ordering;

fn num(v: f64) -> Number {
    Number::from(v)
}

/// C12: `a == b` equals `b == a` for ALL doubles (incl. NaN, inf, -0).
#[kani::proof]
fn c12_number_eq_symmetric() {
    let a: f64 = kani::any();
    let b: f64 = kani::any();
    assert!((num(a) == num(b)) == (num(b) == num(a)), "Number::eq symmetric");
}

/// C12: partial_cmp is antisymmetric: cmp(a,b) == reverse(cmp(b,a)).
/// This is the form in which `<`, `==`, `>` of Sass numbers are computed
/// (Numeric::partial_cmp delegates here), so it carries both symmetry of
/// `==` and "exactly one of <, ==, >".
#[kani::proof]
fn c12_number_partial_cmp_antisymmetric() {
    let a: f64 = kani::any();
    let b: f64 = kani::any();
    let ab = num(a).partial_cmp(&num(b));
    let ba = num(b).partial_cmp(&num(a));
    assert!(ab == ba.map(Ordering::reverse), "Number::partial_cmp antisymmetric");
}

/// C12: every value except NaN compares Equal to itself.
#[kani::proof]
fn c12_number_partial_cmp_reflexive() {
    let a: f64 = kani::any();
    kani::assume(!a.is_nan());
    assert!(num(a).partial_cmp(&num(a)) == Some(Ordering::Equal), "Number reflexive");
}

/// C12: two non-NaN numbers are always comparable and exactly one of <, ==, >
/// holds, where == is "partial_cmp says Equal" (the form `Numeric` uses).
/// The mirrored view (a<b iff b>a) is c12_number_partial_cmp_antisymmetric.
#[kani::proof]
fn c12_number_trichotomy_one_of_three() {
    let a: f64 = kani::any();
    let b: f64 = kani::any();
    kani::assume(!a.is_nan() && !b.is_nan());
    let (x, y) = (num(a), num(b));
    let c = x.partial_cmp(&y);
    assert!(c.is_some(), "numbers that are not NaN are comparable");
    let lt = x < y;
    let gt = x > y;
    let eq = c == Some(Ordering::Equal);
    assert!(lt as u8 + eq as u8 + gt as u8 == 1, "exactly one of <, ==, > holds");
}

/// C12: for comparable numbers (neither NaN) exactly one of <, ==, > holds,
/// both as seen from a and as seen from b.  (Eight evaluations of the
/// relative-epsilon division: exceeds 300 s — thorough-tier attempt.)
#[kani::proof]
fn c12_number_trichotomy() {
    let a: f64 = kani::any();
    let b: f64 = kani::any();
    kani::assume(!a.is_nan() && !b.is_nan());
    let (x, y) = (num(a), num(b));
    let lt = x < y;
    let eq = x == y || x.partial_cmp(&y) == Some(Ordering::Equal);
    let gt = x > y;
    let n = lt as u8 + eq as u8 + gt as u8;
    assert!(n == 1, "exactly one of <, ==, > holds");
    // and the mirrored view agrees
    assert!(lt == (y > x), "a<b iff b>a");
    assert!(gt == (y < x), "a>b iff b<a");
}

/// C01 + contract of into_integer: never UB/panic; Ok(i) only when |i - x| is
/// within f32::EPSILON; Err returns the number unchanged.
#[kani::proof]
fn c01_number_into_integer() {
    let a: f64 = kani::any();
    match num(a).into_integer() {
        Ok(i) => {
            assert!(!a.is_nan(), "NaN is not an integer");
            assert!(((i as f64) - a).abs() <= f64::from(f32::EPSILON));
        }
        Err(n) => {
            let back: f64 = n.into();
            assert!(back.to_bits() == a.to_bits(), "Err returns self unchanged");
        }
    }
}

/// The sub-obligation that keeps `16 - whole.log10().ceil() as usize` in
/// `Display for Formatted<Number>` from underflowing: a double with a
/// fractional part has |trunc| < 2^52 (so log10 <= 15.66, ceil <= 16).
#[kani::proof]
fn c01_number_display_fraction_bound() {
    let s: f64 = kani::any();
    kani::assume(s.is_finite());
    if s.fract() != 0. {
        assert!(s.trunc().abs() < 4503599627370496.0);
    }
}

#[kani::proof]
fn cover_number() {
    let a: f64 = kani::any();
    let b: f64 = kani::any();
    kani::cover!(num(a) == num(b) && a != b, "tolerant equality reachable");
    kani::cover!(num(a).into_integer().is_ok() && a > 1e6);
}

// ---- C29: the rounding primitives behind math.ceil / floor / round / abs,
// against their mathematical specification (not against the f64 intrinsic
// of the same name).  All finite doubles: complete. ----
fn is_int(r: f64) -> bool {
    r == r.trunc()
}
/// C29: ceil gives the least integer >= x.
#[kani::proof]
fn c29_number_ceil() {
    let x: f64 = kani::any();
    kani::assume(x.is_finite());
    let r = f64::from(num(x).ceil());
    // (r - 1 < x, not r - x < 1: the latter rounds to 1 for tiny positive x)
    assert!(is_int(r) && r >= x && (r == x || r - 1.0 < x), "ceil: least integer >= x");
}
/// C29: floor gives the greatest integer <= x.
#[kani::proof]
fn c29_number_floor() {
    let x: f64 = kani::any();
    kani::assume(x.is_finite());
    let r = f64::from(num(x).floor());
    assert!(is_int(r) && r <= x && (r == x || r + 1.0 > x), "floor: greatest integer <= x");
}
/// C29: round gives the nearest integer, halves away from zero.
#[kani::proof]
fn c29_number_round() {
    let x: f64 = kani::any();
    kani::assume(x.is_finite());
    let r = f64::from(num(x).round());
    let d = (r - x).abs();
    assert!(is_int(r) && d <= 0.5, "round: nearest integer");
    assert!(d < 0.5 || r.abs() > x.abs(), "round: halves go away from zero");
}
/// C29: abs gives the magnitude; trunc rounds toward zero.
#[kani::proof]
fn c29_number_abs_trunc() {
    let x: f64 = kani::any();
    kani::assume(x.is_finite());
    let a = f64::from(num(x).abs());
    assert!(a >= 0.0 && (a == x || a == -x), "abs: the magnitude of x");
    let t = f64::from(num(x).trunc());
    assert!(is_int(t) && t.abs() <= x.abs() && x.abs() - t.abs() < 1.0 && (t == 0.0 || (t < 0.0) == (x < 0.0)), "trunc: toward zero");
}
