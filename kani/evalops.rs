//! K-snippet unit U-evalops (C14): the `not` arm of the evaluator
//! (`sass::Value::do_evaluate`, match on the evaluated operand of a unary
//! operator) and the `and` / `or` branches of `sass::BinOp::eval`.
//!
//! The evaluator itself cannot be compiled by Kani (it reaches the whole
//! built-in function table).  The statement ranges below are therefore cut
//! out of /repo's current source text on every run by tools/extract.py and
//! wrapped in functions whose parameters are their free variables; the
//! listed substitutions replace the recursive evaluation of the two operands
//! by calls to a harness-provided probe (an arbitrary callee: any value, and
//! a record of whether it was called).  Everything else is the text that
//! runs.  Dropped: the surrounding match arm / function.
use super::*;
use crate::css::CssString;
use crate::value::{Quotes, Rgba, Unit};
use std::cell::Cell;

fn fmt_stub(_a: std::fmt::Arguments<'_>) -> String {
    String::new()
}

//@range file=rsass/src/sass/value.rs impl="impl Value" fn=do_evaluate from="match (op, value) {" balanced=1
//@  header: fn snippet_unary_op(op: &Operator, value: css::Value) -> css::Value
//@end

/// One representative payload per constructor of `css::Value` that has no
/// nested `Value` (the recursive drop glue of nested payloads makes CBMC
/// run out of memory); scalar payloads symbolic.
fn shallow(tag: u8) -> css::Value {
    match tag {
        0 => css::Value::True,
        1 => css::Value::False,
        2 => css::Value::Null,
        // numbers: concrete payloads — the arm compares with Number::eq, whose
        // symbolic/symbolic f64 division CBMC cannot finish
        3 => css::Value::scalar(0.0),
        4 => css::Value::Numeric(Numeric::new(0.0, Unit::Px), kani::any()),
        16 => css::Value::scalar(1.5),
        17 => css::Value::scalar(f64::NAN),
        18 => css::Value::scalar(-0.0),
        5 => css::Value::List(vec![], None, kani::any()),
        7 => css::Value::Map(Default::default()),
        9 => css::Value::UnicodeRange(String::from("U+1")),
        10 => css::Value::Color(Rgba::from_rgb(kani::any(), kani::any(), 0).into(), None),
        11 => css::Value::Bang(String::from("important")),
        14 => css::Value::Literal(CssString::new(String::from("a"), Quotes::Double)),
        _ => css::Value::Literal(CssString::new(String::new(), Quotes::None)),
    }
}

/// C14: `not x` is true exactly when x is false or null — for every kind of
/// value (0, NaN, the empty string, empty lists and maps are truthy, so
/// their negation is `false`).
macro_rules! per_tag {
    ($name:ident, $tag:expr) => {
        #[kani::proof]
        #[kani::stub(alloc::fmt::format, fmt_stub)]
        #[kani::unwind(4)]
        fn $name() {
            let r = snippet_unary_op(&Operator::Not, shallow($tag));
            if $tag == 1 || $tag == 2 {
                assert!(matches!(r, css::Value::True), "not x is true when x is false or null");
            } else {
                assert!(matches!(r, css::Value::False), "not x is false for every truthy x");
            }
        }
    };
}
per_tag!(c14_not_true, 0);
per_tag!(c14_not_false, 1);
per_tag!(c14_not_null, 2);
per_tag!(c14_not_zero, 3);
per_tag!(c14_not_zero_px, 4);
per_tag!(c14_not_number, 16);
per_tag!(c14_not_nan, 17);
per_tag!(c14_not_negative_zero, 18);
per_tag!(c14_not_empty_list, 5);
per_tag!(c14_not_empty_map, 7);
per_tag!(c14_not_unicode_range, 9);
per_tag!(c14_not_color, 10);
per_tag!(c14_not_bang, 11);
per_tag!(c14_not_quoted_string, 14);
per_tag!(c14_not_empty_unquoted_string, 15);

// ---- and / or: value selection and short-circuit ----

/// Stands for the two operand sub-expressions: `eval_a` / `eval_b` return a
/// value chosen by the harness and record that they ran.  The error type of
/// the range is instantiated at `()` (the drop glue of `crate::Error` alone
/// costs CBMC > 7 GB per harness); the range only propagates it with `?`.
struct Probe {
    a_tag: u8,
    b_tag: u8,
    a_calls: Cell<u8>,
    b_calls: Cell<u8>,
}
impl Probe {
    fn eval_a(&self) -> Result<css::Value, ()> {
        self.a_calls.set(self.a_calls.get() + 1);
        Ok(shallow(self.a_tag))
    }
    fn eval_b(&self) -> Result<css::Value, ()> {
        self.b_calls.set(self.b_calls.get() + 1);
        Ok(shallow(self.b_tag))
    }
}

//@range file=rsass/src/sass/value.rs impl="impl BinOp" fn=eval until="else if self.op.is_cmp()"
//@  header: fn snippet_and_or(op: Operator, probe: &Probe) -> Result<css::Value, ()>
//@  subst: self.op => op
//@  subst: self.a.do_evaluate(scope.clone(), true) => probe.eval_a()
//@  subst: self.b.do_evaluate(scope.clone(), true) => probe.eval_b()
//@  tail: else { unreachable!() }
//@end

fn tag_of(v: &css::Value) -> u8 {
    match v {
        css::Value::True => 0,
        css::Value::False => 1,
        css::Value::Null => 2,
        css::Value::Numeric(..) => 3,
        css::Value::List(..) => 5,
        css::Value::Map(..) => 7,
        _ => 99,
    }
}
fn falsey(tag: u8) -> bool {
    tag == 1 || tag == 2
}

/// C14: `a and b` yields a when a is false or null and b otherwise;
/// `a or b` yields a when a is truthy and b otherwise; the right operand is
/// evaluated exactly when its value is needed, the left one exactly once.
macro_rules! and_or {
    ($name:ident, $op:expr, $a:expr, $b:expr) => {
        #[kani::proof]
        #[kani::unwind(4)]
        fn $name() {
            let p = Probe { a_tag: $a, b_tag: $b, a_calls: Cell::new(0), b_calls: Cell::new(0) };
            let r = snippet_and_or($op, &p);
            let is_and = matches!($op, Operator::And);
            let need_b = if is_and { !falsey($a) } else { falsey($a) };
            assert!(p.a_calls.get() == 1, "left operand evaluated exactly once");
            assert!(p.b_calls.get() == if need_b { 1 } else { 0 }, "right operand evaluated exactly when its value is needed");
            match r {
                Ok(v) => assert!(tag_of(&v) == if need_b { $b } else { $a }, "and/or select the operand Sass prescribes"),
                Err(_) => assert!(false, "and/or of two values is never an error"),
            }
        }
    };
}
and_or!(c14_and_true_null, Operator::And, 0, 2);
and_or!(c14_and_false_true, Operator::And, 1, 0);
and_or!(c14_and_null_true, Operator::And, 2, 0);
and_or!(c14_and_zero_false, Operator::And, 3, 1);
and_or!(c14_and_empty_list_true, Operator::And, 5, 0);
and_or!(c14_and_empty_map_null, Operator::And, 7, 2);
and_or!(c14_or_true_null, Operator::Or, 0, 2);
and_or!(c14_or_false_true, Operator::Or, 1, 0);
and_or!(c14_or_null_zero, Operator::Or, 2, 3);
and_or!(c14_or_zero_false, Operator::Or, 3, 1);
and_or!(c14_or_empty_list_true, Operator::Or, 5, 0);
and_or!(c14_or_empty_map_null, Operator::Or, 7, 2);

// ---- the `if()` function: the only built-in that evaluates its arguments
// lazily, implemented inline in `sass::Value::do_evaluate` (C14 truthiness,
// C17 "runs exactly the first branch whose condition is truthy"). ----
struct IfProbe {
    cond_tag: u8,
    evaluated: Cell<[u8; 3]>,
}
impl IfProbe {
    /// stands for `args.evaluate_single(scope, name, index)`
    fn eval(&self, index: usize) -> Result<css::Value, ()> {
        let mut e = self.evaluated.get();
        e[index] += 1;
        self.evaluated.set(e);
        Ok(match index {
            0 => shallow(self.cond_tag),
            1 => css::Value::True,
            _ => css::Value::False,
        })
    }
}

//@range file=rsass/src/sass/value.rs impl="impl Value" fn=do_evaluate from="if args\n                        .evaluate_single(scope.clone(), name!(condition), 0)" until=";\n                }\n                let call = args.evaluate"
//@  header: fn snippet_if_function(probe: &IfProbe) -> Result<css::Value, ()>
//@  resubst: args\s*\.evaluate_single\(scope(?:\.clone\(\))?, name!\(\w+\), (\d)\) => probe.eval(\1)
//@end

/// C14 / C17: `if($condition, $if-true, $if-false)` yields the second
/// argument exactly when the condition is truthy, and evaluates only the
/// argument it yields.
macro_rules! if_fn {
    ($name:ident, $tag:expr) => {
        #[kani::proof]
        #[kani::unwind(4)]
        fn $name() {
            let p = IfProbe { cond_tag: $tag, evaluated: Cell::new([0; 3]) };
            let r = snippet_if_function(&p);
            let truthy = !($tag == 1 || $tag == 2);
            assert!(matches!(r, Ok(css::Value::True)) == truthy && matches!(r, Ok(css::Value::False)) == !truthy, "if(): the first branch exactly when the condition is truthy");
            let e = p.evaluated.get();
            assert!(e[0] == 1, "the condition is evaluated once");
            assert!(e[1] == truthy as u8 && e[2] == !truthy as u8, "only the branch that is returned is evaluated");
        }
    };
}
if_fn!(c14_if_function_true, 0);
if_fn!(c14_if_function_false, 1);
if_fn!(c14_if_function_null, 2);
if_fn!(c14_if_function_zero, 3);
if_fn!(c14_if_function_empty_list, 5);
if_fn!(c14_if_function_empty_string, 15);

// ---- map literals: two `==` keys are an error (C13) ----
//
// With css::Value keys CBMC needs > 6 GB and > 8 min per two-entry literal
// (css::Value's `==` and drop glue).  The duplicate check itself does not
// depend on the key type: it is `items.insert(k, v).is_some()` on an
// OrderMap.  The range is therefore instantiated at a cheap key type whose
// `==` is non-trivial (equal iff same class modulo 4, like 1in / 96px):
// listed substitutions `css::ValueMap::new()` -> `OrderMap::<Key, u8>::new()`
// and `css::Value::Map(items)` -> `items`; `Error` is a local stand-in with
// the constructor the range uses.  OrderMap::insert below is the real one.
mod maplit {
    use crate::ordermap::OrderMap;
    /// equal iff same class (value / 4); the low bits are "representation"
    #[derive(Clone, Copy, Debug)]
    pub(super) struct Key(pub u8);
    impl PartialEq for Key {
        fn eq(&self, o: &Key) -> bool {
            self.0 / 4 == o.0 / 4
        }
    }
    pub(super) enum Error {
        S(String),
    }
    fn probe<T: Copy>(x: &T) -> T {
        *x
    }
//@range file=rsass/src/sass/value.rs impl="impl Value" fn=do_evaluate from="let mut items = css::ValueMap::new();" until="\n            }\n"
//@  header: pub(super) fn snippet_map_literal(m: &Vec<(Key, u8)>) -> Result<OrderMap<Key, u8>, Error>
//@  subst: css::ValueMap::new() => OrderMap::<Key, u8>::new()
//@  subst: css::Value::Map(items) => items
//@  subst: k.do_evaluate(scope.clone(), arithmetic)? => probe(k)
//@  subst: v.do_evaluate(scope.clone(), arithmetic)? => probe(v)
//@  head: Ok({
//@  tail: })
//@end
}
use maplit::{Key, snippet_map_literal};

/// C13: a map literal with two `==` keys is an error — also when the two
/// keys are different representations of the same key; distinct keys give a
/// map with all entries in source order.  Three-entry literals, all keys.
#[kani::proof]
#[kani::stub(alloc::fmt::format, fmt_stub)]
#[kani::unwind(5)]
fn c13_map_literal_duplicate_keys_are_an_error() {
    let (k1, k2, k3): (u8, u8, u8) = (kani::any(), kani::any(), kani::any());
    let m = vec![(Key(k1), 1u8), (Key(k2), 2u8), (Key(k3), 3u8)];
    let dup = k1 / 4 == k2 / 4 || k1 / 4 == k3 / 4 || k2 / 4 == k3 / 4;
    match snippet_map_literal(&m) {
        Ok(items) => {
            assert!(!dup, "a map literal with two == keys is an error");
            assert!(items.len() == 3, "distinct keys: every entry is kept");
            assert!(matches!(items.get_item(0), Some((_, 1))) && matches!(items.get_item(1), Some((_, 2))) && matches!(items.get_item(2), Some((_, 3))),
                "entries keep source order");
        }
        Err(_) => assert!(dup, "distinct keys are not an error"),
    }
}

#[kani::proof]
#[kani::unwind(4)]
fn cover_evalops() {
    let v = shallow(3);
    kani::cover!(matches!(v, css::Value::Numeric(..)));
}
