//! K-snippet unit U-strfns, part 1 (C26): the index arithmetic of string.slice and
//! string.insert.  The Sass functions are closures inside
//! `sass::functions::string::create_module`, reachable only through the
//! built-in function table (which Kani cannot compile), so the statement
//! ranges that turn the Sass indices into code-point offsets are cut out of
//! /repo's current source text on every run (tools/extract.py) and wrapped in
//! functions of their free variables.  Loop-free, every i64 index and every
//! string length: complete.  Dropped: argument fetching (`s.get…`), the
//! `chars().skip().take().collect()` that applies the offsets, and the
//! result wrapping.
use super::*;

//@range file=rsass/src/sass/functions/string.rs fn=create_module from="let start_at = if start_at.is_negative() {" until="let end_at = s.get_map("
//@  header: fn snippet_slice_start(start_at: i64, len: usize) -> usize
//@  tail: start_at
//@end

//@range file=rsass/src/sass/functions/string.rs fn=create_module from="let end_at = if end_at.is_negative() {" until="let count ="
//@  header: fn snippet_slice_end(end_at: i64, len: usize) -> usize
//@  tail: end_at
//@end

//@range file=rsass/src/sass/functions/string.rs fn=create_module from="let count =" until="let part"
//@  header: fn snippet_slice_count(start_at: usize, end_at: usize) -> usize
//@  tail: count
//@end

//@range file=rsass/src/sass/functions/string.rs fn=create_module from="let index = if index.is_negative() {" until="let mut s = string.value().chars();"
//@  header: fn snippet_insert_index(index: i64, len: usize) -> usize
//@  subst: string.value().chars().count() => len
//@  tail: index
//@end

/// A string never has more than isize::MAX bytes, hence code points.
fn any_len() -> usize {
    let len: usize = kani::any();
    kani::assume(len <= isize::MAX as usize);
    len
}

/// C26 (string.slice): 1-based positions, negative values count from the
/// end; the result is the code points at positions i through j, empty when
/// that range is empty.  Stated over mathematical integers (i128), against
/// the offsets the real code feeds to `chars().skip(a).take(n)`.
#[kani::proof]
fn c26_slice_selects_positions_i_through_j() {
    let (i, j): (i64, i64) = (kani::any(), kani::any());
    let len = any_len();
    let skip = snippet_slice_start(i, len);
    let end = snippet_slice_end(j, len);
    let count = snippet_slice_count(skip, end);
    // what skip(skip).take(count) selects from `len` code points: [lo, hi)
    let lo = (skip as i128).min(len as i128);
    let hi = (skip as i128 + count as i128).min(len as i128).max(lo);
    // the specification, 1-based inclusive [s1, e1] clipped to 1..=len
    let l = len as i128;
    let s1 = if i > 0 { i as i128 } else if i == 0 { 1 } else { (l + i as i128 + 1).max(1) };
    let e1 = if j >= 0 { (j as i128).min(l) } else { l + j as i128 + 1 };
    if s1 <= e1 {
        assert!(lo == s1 - 1, "slice starts at position i (1-based; negative i counts from the end)");
        assert!(hi == e1, "slice ends with position j (inclusive; negative j counts from the end)");
    } else {
        assert!(hi == lo, "slice is empty when the range i..j is empty");
    }
}

/// C26 (string.insert): the text goes in front of position i, clamped to the
/// string; negative i counts from the end, -1 appends.
#[kani::proof]
fn c26_insert_offset() {
    let i: i64 = kani::any();
    let len = any_len();
    let off = snippet_insert_index(i, len);
    // chars().take(off) keeps min(off, len) code points in front of the insertion
    let kept = (off as i128).min(len as i128);
    let l = len as i128;
    let want = if i > 0 { (i as i128 - 1).min(l) } else if i == 0 { 0 } else { (l + i as i128 + 1).max(0) };
    assert!(kept == want, "insert puts the text before position i, clamped to the string");
}

#[kani::proof]
fn cover_strfns() {
    let i: i64 = kani::any();
    let len = any_len();
    let s = snippet_slice_start(i, len);
    kani::cover!(i < 0 && s > 0);
    kani::cover!(i > 0 && s == len);
}

