//! K-snippet unit U-colorfns, part 3 (C32): the bodies of opacify /
//! fade-in and transparentize / fade-out, extracted from
//! sass/functions/color/other.rs on every run (tools/extract.py).  Listed
//! (regex) substitutions, argument fetches only: `s.get(name!(color))?` ->
//! the Color parameter, `s.get_map(name!(amount), check_alpha_range)?` ->
//! the f64 parameter (in [0, 1], what the real check lets through).
use super::*;

//@range file=rsass/src/sass/functions/color/other.rs fn=expose after="def!(f, fade_in(color, amount), |s| {" until="\n    });"
//@  header: fn snippet_fade_in(color_arg: Color, amount_arg: f64) -> Result<Value, CallError>
//@  resubst: s\.get\(name!\((\w+)\)\)\? => \1_arg.clone()
//@  resubst: s\.get_map\(name!\((\w+)\), check_alpha_range\)\? => \1_arg
//@end

//@range file=rsass/src/sass/functions/color/other.rs fn=expose after="def!(f, fade_out(color, amount), |s| {" until="\n    });"
//@  header: fn snippet_fade_out(color_arg: Color, amount_arg: f64) -> Result<Value, CallError>
//@  resubst: s\.get\(name!\((\w+)\)\)\? => \1_arg.clone()
//@  resubst: s\.get_map\(name!\((\w+)\), check_alpha_range\)\? => \1_arg
//@end

fn color_of(v: Result<Value, CallError>) -> Color {
    match v {
        Ok(Value::Color(c, _)) => c,
        _ => {
            assert!(false, "the function returns a color");
            unreachable!()
        }
    }
}
fn any_unit() -> f64 {
    let c: f64 = kani::any();
    kani::assume(0.0 <= c && c <= 1.0);
    c
}
fn clamp01(x: f64) -> f64 {
    if x < 0.0 { 0.0 } else if x > 1.0 { 1.0 } else { x }
}
fn any_rgb_color(alpha: f64) -> Color {
    let (r, g, b): (f64, f64, f64) = (kani::any(), kani::any(), kani::any());
    kani::assume(0.0 <= r && r <= 255.0 && 0.0 <= g && g <= 255.0 && 0.0 <= b && b <= 255.0);
    Color::Rgba(Rgba::new(r, g, b, alpha, RgbFormat::Name))
}

/// C32: opacify / transparentize move alpha by exactly the amount, clamped
/// to [0, 1], and leave the other channels alone.
#[kani::proof]
fn c32_opacify_moves_alpha_clamped() {
    let (alpha, amount) = (any_unit(), any_unit());
    let c = any_rgb_color(alpha);
    let r = color_of(snippet_fade_in(c.clone(), amount));
    assert!(r.get_alpha() == clamp01(alpha + amount), "opacify: alpha + amount, clamped");
    let (a, b) = (c.to_rgba(), r.to_rgba());
    assert!(a.red() == b.red() && a.green() == b.green() && a.blue() == b.blue(), "opacify: color channels unchanged");
}
#[kani::proof]
fn c32_transparentize_moves_alpha_clamped() {
    let (alpha, amount) = (any_unit(), any_unit());
    let c = any_rgb_color(alpha);
    let r = color_of(snippet_fade_out(c.clone(), amount));
    assert!(r.get_alpha() == clamp01(alpha - amount), "transparentize: alpha - amount, clamped");
    let (a, b) = (c.to_rgba(), r.to_rgba());
    assert!(a.red() == b.red() && a.green() == b.green() && a.blue() == b.blue(), "transparentize: color channels unchanged");
}
/// C32: they undo each other when nothing was clamped (up to one rounding).
#[kani::proof]
fn c32_opacify_transparentize_undo() {
    let (alpha, amount) = (any_unit(), any_unit());
    kani::assume(alpha + amount <= 1.0);
    let c = any_rgb_color(alpha);
    let up = color_of(snippet_fade_in(c, amount));
    let back = color_of(snippet_fade_out(up, amount));
    assert!((back.get_alpha() - alpha).abs() <= 4.0 * f64::EPSILON, "transparentize undoes opacify when nothing was clamped");
}

#[kani::proof]
fn cover_colorfns_other() {
    let (a, b) = (any_unit(), any_unit());
    kani::cover!(a + b > 1.0);
}
