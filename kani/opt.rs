//! Proof harnesses for rsass/src/css/selectors/opt.rs — unit U-opt (C22).
//! The placeholder filter of every selector structure reduces to these two
//! folds: `collect_pos` (a selector list keeps the members that survive;
//! `Any` absorbs) and `collect_neg` (inside `:not()`: roles of `Any`/`None`
//! swapped).  Bounded: sequences of length <= N, payload type u8.
use super::*;

const N: usize = 4;

#[derive(Clone, Copy, PartialEq, Eq)]
enum K {
    S(u8),
    Any,
    None,
}
fn any_k() -> K {
    match kani::any::<u8>() % 3 {
        0 => K::S(kani::any()),
        1 => K::Any,
        _ => K::None,
    }
}
fn to_opt(k: K) -> Opt<u8> {
    match k {
        K::S(v) => Opt::Some(v),
        K::Any => Opt::Any,
        K::None => Opt::None,
    }
}
fn any_seq() -> ([K; N], usize) {
    let a = [any_k(), any_k(), any_k(), any_k()];
    let n: usize = kani::any();
    kani::assume(n <= N);
    (a, n)
}

/// Spec of the fold, written directly from the C22 statement:
/// result is `absorb` if some item is `absorb`; otherwise the surviving
/// payloads in order, or `empty` when none survives.
fn check(result: Opt<Vec<u8>>, a: &[K; N], n: usize, absorb: K, skip: K) {
    let mut has_absorb = false;
    let mut want: [u8; N] = [0; N];
    let mut m = 0;
    let mut i = 0;
    while i < N {
        if i < n {
            if a[i] == absorb {
                has_absorb = true;
            } else if let K::S(v) = a[i] {
                want[m] = v;
                m += 1;
            } else {
                assert!(a[i] == skip);
            }
        }
        i += 1;
    }
    match result {
        Opt::Some(v) => {
            assert!(!has_absorb, "Some only when nothing absorbs");
            assert!(v.len() == m && m > 0, "all surviving members kept, none invented");
            let j: usize = kani::any();
            kani::assume(j < m);
            assert!(v[j] == want[j], "members keep their text and order");
        }
        Opt::Any => {
            if absorb == K::Any {
                assert!(has_absorb)
            } else {
                assert!(!has_absorb && m == 0)
            }
        }
        Opt::None => {
            if absorb == K::None {
                assert!(has_absorb)
            } else {
                assert!(!has_absorb && m == 0)
            }
        }
    }
}

#[kani::proof]
#[kani::unwind(6)]
fn c22_opt_collect_pos() {
    let (a, n) = any_seq();
    let r = Opt::collect_pos(a.iter().take(n).map(|k| to_opt(*k)));
    check(r, &a, n, K::Any, K::None);
}
#[kani::proof]
#[kani::unwind(6)]
fn c22_opt_collect_neg() {
    let (a, n) = any_seq();
    let r = Opt::collect_neg(a.iter().take(n).map(|k| to_opt(*k)));
    check(r, &a, n, K::None, K::Any);
}
/// Opt::map keeps the constructor and applies f to the payload.
#[kani::proof]
fn c22_opt_map() {
    let k = any_k();
    match (k, to_opt(k).map(|v| v.wrapping_add(1))) {
        (K::S(v), Opt::Some(w)) => assert!(w == v.wrapping_add(1)),
        (K::Any, Opt::Any) | (K::None, Opt::None) => (),
        _ => assert!(false, "map changed the constructor"),
    }
}
