//! Contracts and proof harnesses for rsass/src/value/colors/rgba.rs
//! Units U-color-ctor (C31), U-color-cmp (C01, C12, C31), U-bytes (C31), U-color-law (C32).
use super::*;

// ---------- contract predicates used by the in-place attributes ----------

/// `cap` is only ever called with max = 255 or 1.
pub(crate) fn cap_pre(_n: f64, max: f64) -> bool {
    max >= 0.0
}
/// C31: the result is inside [0, max] for EVERY n (NaN and ±inf included).
pub(crate) fn cap_post(n: f64, max: f64, r: &f64) -> bool {
    0.0 <= *r && *r <= max && (!(0.0 <= n && n <= max) || *r == n)
}
/// C01/C12: cmp_chan is total; Equal for equal channels.
pub(crate) fn cmp_chan_post(a: f64, b: f64, r: &Ordering) -> bool {
    (a != b || *r == Ordering::Equal)
        && (!(a.is_nan() && b.is_nan()) || *r == Ordering::Equal)
}

pub(crate) fn any_source() -> RgbFormat {
    match kani::any::<u8>() % 4 {
        0 => RgbFormat::LongHex,
        1 => RgbFormat::ShortHex,
        2 => RgbFormat::Name,
        _ => RgbFormat::Rgb,
    }
}
/// Any Rgba whatsoever (fields unconstrained, incl. NaN).
pub(crate) fn any_rgba_raw() -> Rgba {
    Rgba {
        red: kani::any(),
        green: kani::any(),
        blue: kani::any(),
        alpha: kani::any(),
        source: any_source(),
    }
}
pub(crate) fn in_range(c: &Rgba) -> bool {
    0.0 <= c.red
        && c.red <= 255.0
        && 0.0 <= c.green
        && c.green <= 255.0
        && 0.0 <= c.blue
        && c.blue <= 255.0
        && 0.0 <= c.alpha
        && c.alpha <= 1.0
}
/// Any Rgba satisfying the type invariant established by the constructors.
pub(crate) fn any_rgba_valid() -> Rgba {
    let c = any_rgba_raw();
    kani::assume(in_range(&c));
    c
}

// ---------- U-color-ctor ----------

#[kani::proof_for_contract(cap)]
fn c31_cap_contract() {
    cap(kani::any(), kani::any());
}

/// C31: Rgba::new reports r,g,b in 0..=255 and alpha in 0..=1 for all inputs.
#[kani::proof]
fn c31_rgba_new_in_range() {
    let c = Rgba::new(kani::any(), kani::any(), kani::any(), kani::any(), any_source());
    assert!(in_range(&c), "Rgba::new channels in range");
}
/// C31: in-range inputs are stored unchanged (no spurious clamping).
#[kani::proof]
fn c31_rgba_new_identity_in_range() {
    let (r, g, b, a): (f64, f64, f64, f64) = (kani::any(), kani::any(), kani::any(), kani::any());
    kani::assume(0.0 <= r && r <= 255.0 && 0.0 <= g && g <= 255.0);
    kani::assume(0.0 <= b && b <= 255.0 && 0.0 <= a && a <= 1.0);
    let c = Rgba::new(r, g, b, a, any_source());
    assert!(c.red() == r && c.green() == g && c.blue() == b && c.alpha() == a);
}
#[kani::proof]
fn c31_rgba_from_bytes_in_range() {
    let (r, g, b, a): (u8, u8, u8, u8) = (kani::any(), kani::any(), kani::any(), kani::any());
    let c = Rgba::from_rgb(r, g, b);
    assert!(in_range(&c) && c.alpha() == 1.0);
    assert!(c.red() == f64::from(r) && c.green() == f64::from(g) && c.blue() == f64::from(b));
    let c = Rgba::from_rgba(r, g, b, a);
    assert!(in_range(&c));
    assert!(c.to_bytes() == (r, g, b, a), "from_rgba / to_bytes round trip");
}
/// C31: set_alpha keeps alpha in 0..=1 for every argument.
#[kani::proof]
fn c31_rgba_set_alpha_in_range() {
    let mut c = any_rgba_valid();
    let a: f64 = kani::any();
    kani::assume(!a.is_nan());
    c.set_alpha(a);
    assert!(in_range(&c), "set_alpha keeps range");
    assert!(!(0.0 <= a && a <= 1.0) || c.alpha() == a);
}
// ---------- U-color-cmp ----------

#[kani::proof_for_contract(cmp_chan)]
fn c01_cmp_chan_contract() {
    cmp_chan(kani::any(), kani::any());
}
/// C12: cmp_chan(a,b) is the reverse of cmp_chan(b,a) for all doubles.
#[kani::proof]
fn c12_cmp_chan_antisymmetric() {
    let a: f64 = kani::any();
    let b: f64 = kani::any();
    assert!(cmp_chan(a, b) == cmp_chan(b, a).reverse());
}
/// C01/C12: Rgba::cmp never panics, is antisymmetric, and == is symmetric,
/// for ALL field values (NaN, inf included).
#[kani::proof]
fn c12_rgba_cmp_antisymmetric() {
    let a = any_rgba_raw();
    let b = any_rgba_raw();
    assert!(a.cmp(&b) == b.cmp(&a).reverse(), "Rgba::cmp antisymmetric");
}
#[kani::proof]
fn c12_rgba_eq_symmetric() {
    let a = any_rgba_raw();
    let b = any_rgba_raw();
    assert!((a == b) == (b == a), "Rgba::eq symmetric");
    assert!((a != b) == !(a == b));
}
/// C31: same rgba channels => equal, whatever notation (`source`) made them.
#[kani::proof]
fn c31_rgba_same_channels_equal() {
    let a = any_rgba_valid();
    let b = Rgba { source: any_source(), ..a.clone() };
    assert!(a == b, "same channels, different source: ==");
    assert!(a.cmp(&b) == Ordering::Equal, "same channels: cmp Equal");
}

// ---------- U-bytes ----------

/// C31: to_bytes never produces an out-of-range cast for valid colors and
/// returns the rounded channels.
#[kani::proof]
fn c31_rgba_to_bytes() {
    let c = any_rgba_valid();
    let (r, g, b, a) = c.to_bytes();
    assert!((f64::from(r) - c.red()).abs() <= 0.5);
    assert!((f64::from(g) - c.green()).abs() <= 0.5);
    assert!((f64::from(b) - c.blue()).abs() <= 0.5);
    assert!((f64::from(a) - c.alpha() * 255.0).abs() <= 0.5);
}
/// C31/C33: try_bytes is Some((r,g,b)) only if opaque and every channel is
/// within 1e-7 of that byte; and it is Some for every integer opaque color.
#[kani::proof]
fn c31_rgba_try_bytes() {
    let c = any_rgba_valid();
    match c.try_bytes() {
        Some((r, g, b)) => {
            assert!(c.alpha() >= 1.0);
            assert!((f64::from(r) - c.red()).abs() < 1e-7);
            assert!((f64::from(g) - c.green()).abs() < 1e-7);
            assert!((f64::from(b) - c.blue()).abs() < 1e-7);
        }
        None => {
            let int = |v: f64| v == v.round();
            assert!(!(c.alpha() >= 1.0 && int(c.red()) && int(c.green()) && int(c.blue())));
        }
    }
}

// ---------- U-color-law (C32) ----------

/// C32: invert(weight 1) applied twice returns the color (within the
/// comparison tolerance that `==` on colors uses), alpha untouched.
#[kani::proof]
fn c32_rgba_invert_involution() {
    let c = any_rgba_valid();
    let once = c.invert(1.0);
    assert!(in_range(&once));
    assert!(once.alpha() == c.alpha(), "invert leaves alpha");
    let twice = once.invert(1.0);
    assert!(twice.cmp(&c) == Ordering::Equal, "invert o invert == id");
}
/// C32: invert with weight 0 is the identity.
#[kani::proof]
fn c32_rgba_invert_weight0_identity() {
    let c = any_rgba_valid();
    let same = c.invert(0.0);
    assert!(same.cmp(&c) == Ordering::Equal && same.alpha() == c.alpha());
}
/// C32: inverted channel is exactly 255 - v.
#[kani::proof]
fn c32_rgba_invert_value() {
    let c = any_rgba_valid();
    let i = c.invert(1.0);
    assert!(i.red() == 255.0 - c.red() && i.green() == 255.0 - c.green() && i.blue() == 255.0 - c.blue());
}

#[kani::proof]
fn cover_rgba() {
    let c = any_rgba_valid();
    kani::cover!(c.try_bytes().is_some());
    kani::cover!(c.try_bytes().is_none() && c.alpha() >= 1.0);
    let (n, m): (f64, f64) = (kani::any(), kani::any());
    kani::cover!(cap_pre(n, m) && n > m);
}
