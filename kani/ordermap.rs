//! Proof harnesses for rsass/src/ordermap.rs — unit U-ordermap (C13).
//!
//! View: the sequence of (k, v) entries.  Invariant `wf`: keys pairwise `!=`.
//! Key type `Key` has a NON-trivial `==` (two representations of the same
//! key compare equal, like `1.0` / `1` or `"a"` / `a` in Sass) so that a
//! lookup by bit-identity instead of `==` fails the contract.
//! Bounded: maps of at most N entries.
use super::*;

const N: usize = 3;

/// Key: equal iff same class (value / 4); the low bits are "representation".
#[derive(Clone, Copy, Debug)]
struct Key(u8);
impl PartialEq for Key {
    fn eq(&self, o: &Key) -> bool {
        self.0 / 4 == o.0 / 4
    }
}
type M = OrderMap<Key, u8>;

fn any_entries(n: usize) -> [(Key, u8); N] {
    let e: [(Key, u8); N] = [
        (Key(kani::any()), kani::any()),
        (Key(kani::any()), kani::any()),
        (Key(kani::any()), kani::any()),
    ];
    // wf: keys pairwise distinct under ==
    kani::assume(n < 2 || e[0].0 != e[1].0);
    kani::assume(n < 3 || (e[0].0 != e[2].0 && e[1].0 != e[2].0));
    e
}
fn any_map() -> (M, [(Key, u8); N], usize) {
    let n: usize = kani::any();
    kani::assume(n <= N);
    let e = any_entries(n);
    let m: M = e[..n].iter().copied().collect();
    (m, e, n)
}
/// Same, for a CONCRETE size (the harnesses that move or compare whole
/// vectors exhaust CBMC's memory with a symbolic allocation size, so they
/// are instantiated once per size 0..=3 instead).
fn any_map_n(n: usize) -> (M, [(Key, u8); N], usize) {
    let e = any_entries(n);
    let mut m = M::new();
    let mut i = 0;
    while i < n {
        m.0.push(e[i]);
        i += 1;
    }
    (m, e, n)
}
macro_rules! gen_sized {
    ($name:ident, $law:ident, $n:expr) => {
        #[kani::proof]
        #[kani::unwind(5)]
        fn $name() {
            $law($n);
        }
    };
}
/// index of the entry whose key == k, per the model
fn find(e: &[(Key, u8); N], n: usize, k: Key) -> Option<usize> {
    if n > 0 && e[0].0 == k {
        Some(0)
    } else if n > 1 && e[1].0 == k {
        Some(1)
    } else if n > 2 && e[2].0 == k {
        Some(2)
    } else {
        None
    }
}
fn wf(m: &M) -> bool {
    let (i, j): (usize, usize) = (kani::any(), kani::any());
    !(i < j && j < m.len()) || m.get_item(i).unwrap().0 != m.get_item(j).unwrap().0
}

/// C13: get / contains_key find a key exactly when it is == to a stored key.
#[kani::proof]
#[kani::unwind(5)]
fn c13_ordermap_get() {
    let (m, e, n) = any_map();
    let k = Key(kani::any());
    match find(&e, n, k) {
        Some(i) => {
            assert!(m.get(&k) == Some(&e[i].1), "get returns the value stored under the == key");
            assert!(m.contains_key(&k), "has-key is true for an == key");
        }
        None => {
            assert!(m.get(&k).is_none(), "get: no == key => None");
            assert!(!m.contains_key(&k), "has-key false when no == key");
        }
    }
    assert!(m.len() == n);
}

/// C13: after insert(k, v): get(k) == v; an existing == key is replaced in
/// place (same position, key representation kept), otherwise appended at
/// the end; ALL other entries unchanged, in order; invariant kept.
fn insert_law(n: usize) {
    let (mut m, e, n) = any_map_n(n);
    let k = Key(kani::any());
    let v: u8 = kani::any();
    let ret = m.insert(k, v);
    assert!(m.get(&k) == Some(&v), "map.get after map.set returns v");
    // j ranges over the entries that existed before (none when n == 0)
    let j: usize = kani::any();
    let check_j = j < n;
    match find(&e, n, k) {
        Some(i) => {
            assert!(ret == Some(e[i].1), "insert returns the replaced value");
            assert!(m.len() == n, "replace keeps the size");
            if check_j {
                let (kj, vj) = *m.get_item(j).unwrap();
                assert!(kj.0 == e[j].0.0, "keys (and their order) unchanged");
                assert!(vj == if j == i { v } else { e[j].1 }, "only the addressed entry changes");
            }
        }
        None => {
            assert!(ret.is_none());
            assert!(m.len() == n + 1, "new key is appended");
            if check_j {
                let (kj, vj) = *m.get_item(j).unwrap();
                assert!(kj.0 == e[j].0.0 && vj == e[j].1, "existing entries unchanged");
            }
            let (kl, vl) = *m.get_item(n).unwrap();
            assert!(kl.0 == k.0 && vl == v, "new entry is last (m1's order, then new keys)");
        }
    }
    assert!(wf(&m), "keys stay pairwise !=");
}
gen_sized!(c13_ordermap_insert_n0, insert_law, 0);
gen_sized!(c13_ordermap_insert_n1, insert_law, 1);
gen_sized!(c13_ordermap_insert_n2, insert_law, 2);
gen_sized!(c13_ordermap_insert_n3, insert_law, 3);

/// C13: remove deletes exactly the entry with the == key, keeps the order of
/// the rest, returns its value; absent key => map unchanged.
fn remove_law(n: usize) {
    let (mut m, e, n) = any_map_n(n);
    let k = Key(kani::any());
    let ret = m.remove(&k);
    match find(&e, n, k) {
        Some(i) => {
            assert!(ret == Some(e[i].1));
            assert!(m.len() == n - 1);
            assert!(m.get(&k).is_none(), "removed key is gone");
            let j: usize = kani::any();
            kani::assume(j < n - 1);
            let src = if j < i { j } else { j + 1 };
            let (kj, vj) = *m.get_item(j).unwrap();
            assert!(kj.0 == e[src].0.0 && vj == e[src].1, "other entries unchanged, order kept");
        }
        None => {
            assert!(ret.is_none());
            assert!(m.len() == n);
            let j: usize = kani::any();
            kani::assume(j < n);
            let (kj, vj) = *m.get_item(j).unwrap();
            assert!(kj.0 == e[j].0.0 && vj == e[j].1);
        }
    }
}

gen_sized!(c13_ordermap_remove_n0, remove_law, 0);
gen_sized!(c13_ordermap_remove_n1, remove_law, 1);
gen_sized!(c13_ordermap_remove_n2, remove_law, 2);
gen_sized!(c13_ordermap_remove_n3, remove_law, 3);

/// C13: get_mut addresses the same entry as get.
#[kani::proof]
#[kani::unwind(5)]
fn c13_ordermap_get_mut() {
    let (mut m, e, n) = any_map();
    let k = Key(kani::any());
    let found = find(&e, n, k);
    match m.get_mut(&k) {
        Some(v) => {
            assert!(found.is_some() && *v == e[found.unwrap()].1);
            *v = v.wrapping_add(1);
        }
        None => assert!(found.is_none()),
    }
    if let Some(i) = found {
        assert!(m.get_item(i).unwrap().1 == e[i].1.wrapping_add(1));
    }
}

/// C13: two maps are equal when they have == keys mapped to == values,
/// regardless of key order (here: any permutation of <= 3 entries, and any
/// change of key representation), and unequal when a value differs.
fn eq_order_insensitive_law(n: usize, p: [usize; N]) {
    let (m, e, n) = any_map_n(n);
    // `other` holds the same entries in the order p[0], p[1], ..; every key
    // in a possibly different representation of the same class
    let mut other = M::new();
    let mut i = 0;
    while i < n {
        let (k, v) = e[p[i]];
        let rep: u8 = kani::any();
        other.0.push((Key((k.0 / 4) * 4 + rep % 4), v));
        i += 1;
    }
    assert!(other.len() == n);
    assert!(m == other, "maps with == keys and == values are equal in any order");
    assert!(other == m, "symmetric");
}
macro_rules! gen_perm {
    ($name:ident, $n:expr, $p:expr) => {
        #[kani::proof]
        #[kani::unwind(5)]
        fn $name() {
            eq_order_insensitive_law($n, $p);
        }
    };
}
gen_perm!(c13_ordermap_eq_order_insensitive_n1, 1, [0, 0, 0]);
gen_perm!(c13_ordermap_eq_order_insensitive_n2_01, 2, [0, 1, 0]);
gen_perm!(c13_ordermap_eq_order_insensitive_n2_10, 2, [1, 0, 0]);
gen_perm!(c13_ordermap_eq_order_insensitive_n3_012, 3, [0, 1, 2]);
gen_perm!(c13_ordermap_eq_order_insensitive_n3_021, 3, [0, 2, 1]);
gen_perm!(c13_ordermap_eq_order_insensitive_n3_102, 3, [1, 0, 2]);
gen_perm!(c13_ordermap_eq_order_insensitive_n3_120, 3, [1, 2, 0]);
gen_perm!(c13_ordermap_eq_order_insensitive_n3_201, 3, [2, 0, 1]);
gen_perm!(c13_ordermap_eq_order_insensitive_n3_210, 3, [2, 1, 0]);

/// C13: a differing value, a differing key or a differing size makes two
/// maps unequal (both directions).
fn eq_detects_difference_law(n: usize) {
    let (m, e, n) = any_map_n(n);
    let mut other = M::new();
    let i: usize = kani::any();
    kani::assume(i < n);
    let mut j = 0;
    while j < n {
        other.0.push(if j == i { (e[j].0, e[j].1.wrapping_add(1)) } else { e[j] });
        j += 1;
    }
    assert!(m != other, "a differing value makes maps unequal");
    assert!(other != m);
    // one entry fewer
    let (m2, _e2, _n2) = any_map_n(n - 1);
    assert!(m != m2, "different sizes are unequal");
    assert!(m2 != m);
}
gen_sized!(c13_ordermap_eq_detects_difference_n1, eq_detects_difference_law, 1);
gen_sized!(c13_ordermap_eq_detects_difference_n2, eq_detects_difference_law, 2);
gen_sized!(c13_ordermap_eq_detects_difference_n3, eq_detects_difference_law, 3);

#[kani::proof]
#[kani::unwind(5)]
fn cover_ordermap() {
    let (m, e, n) = any_map();
    let k = Key(kani::any());
    kani::cover!(n == 3 && find(&e, n, k) == Some(2) && k.0 != e[2].0.0, "== key with different representation");
    kani::cover!(m.len() == 3);
}
