//! Proof harnesses for rsass/src/ordermap.rs — unit U-ordermap (C13).
//!
//! View: the sequence of (k, v) entries.  Invariant `wf`: keys pairwise `!=`.
//! Key type `Key` has a NON-trivial `==` (two representations of the same
//! key compare equal, like `1.0` / `1` or `"a"` / `a` in Sass) so that a
//! lookup by bit-identity instead of `==` fails the contract.
//! Bounded: maps of at most N entries.
use super::*;

const N: usize = 3;

/// Key: equal iff same class (value / 4); the low bits are "representation".
#[derive(Clone, Copy, Debug)]
struct Key(u8);
impl PartialEq for Key {
    fn eq(&self, o: &Key) -> bool {
        self.0 / 4 == o.0 / 4
    }
}
type M = OrderMap<Key, u8>;

fn any_map() -> (M, [(Key, u8); N], usize) {
    let e: [(Key, u8); N] = [
        (Key(kani::any()), kani::any()),
        (Key(kani::any()), kani::any()),
        (Key(kani::any()), kani::any()),
    ];
    let n: usize = kani::any();
    kani::assume(n <= N);
    // wf: keys pairwise distinct under ==
    kani::assume(n < 2 || e[0].0 != e[1].0);
    kani::assume(n < 3 || (e[0].0 != e[2].0 && e[1].0 != e[2].0));
    let m: M = e[..n].iter().copied().collect();
    (m, e, n)
}
/// index of the entry whose key == k, per the model
fn find(e: &[(Key, u8); N], n: usize, k: Key) -> Option<usize> {
    if n > 0 && e[0].0 == k {
        Some(0)
    } else if n > 1 && e[1].0 == k {
        Some(1)
    } else if n > 2 && e[2].0 == k {
        Some(2)
    } else {
        None
    }
}
fn wf(m: &M) -> bool {
    let (i, j): (usize, usize) = (kani::any(), kani::any());
    !(i < j && j < m.len()) || m.get_item(i).unwrap().0 != m.get_item(j).unwrap().0
}

/// C13: get / contains_key find a key exactly when it is == to a stored key.
#[kani::proof]
#[kani::unwind(5)]
fn c13_ordermap_get() {
    let (m, e, n) = any_map();
    let k = Key(kani::any());
    match find(&e, n, k) {
        Some(i) => {
            assert!(m.get(&k) == Some(&e[i].1), "get returns the value stored under the == key");
            assert!(m.contains_key(&k), "has-key is true for an == key");
        }
        None => {
            assert!(m.get(&k).is_none(), "get: no == key => None");
            assert!(!m.contains_key(&k), "has-key false when no == key");
        }
    }
    assert!(m.len() == n);
}

/// C13: after insert(k, v): get(k) == v; an existing == key is replaced in
/// place (same position, key representation kept), otherwise appended at
/// the end; ALL other entries unchanged, in order; invariant kept.
#[kani::proof]
#[kani::unwind(5)]
fn c13_ordermap_insert() {
    let (mut m, e, n) = any_map();
    let k = Key(kani::any());
    let v: u8 = kani::any();
    let ret = m.insert(k, v);
    assert!(m.get(&k) == Some(&v), "map.get after map.set returns v");
    let j: usize = kani::any();
    kani::assume(j < n);
    match find(&e, n, k) {
        Some(i) => {
            assert!(ret == Some(e[i].1), "insert returns the replaced value");
            assert!(m.len() == n, "replace keeps the size");
            let (kj, vj) = *m.get_item(j).unwrap();
            assert!(kj.0 == e[j].0.0, "keys (and their order) unchanged");
            assert!(vj == if j == i { v } else { e[j].1 }, "only the addressed entry changes");
        }
        None => {
            assert!(ret.is_none());
            assert!(m.len() == n + 1, "new key is appended");
            let (kj, vj) = *m.get_item(j).unwrap();
            assert!(kj.0 == e[j].0.0 && vj == e[j].1, "existing entries unchanged");
            let (kl, vl) = *m.get_item(n).unwrap();
            assert!(kl.0 == k.0 && vl == v, "new entry is last (m1's order, then new keys)");
        }
    }
    assert!(wf(&m), "keys stay pairwise !=");
}

/// C13: remove deletes exactly the entry with the == key, keeps the order of
/// the rest, returns its value; absent key => map unchanged.
#[kani::proof]
#[kani::unwind(5)]
fn c13_ordermap_remove() {
    let (mut m, e, n) = any_map();
    let k = Key(kani::any());
    let ret = m.remove(&k);
    match find(&e, n, k) {
        Some(i) => {
            assert!(ret == Some(e[i].1));
            assert!(m.len() == n - 1);
            assert!(m.get(&k).is_none(), "removed key is gone");
            let j: usize = kani::any();
            kani::assume(j < n - 1);
            let src = if j < i { j } else { j + 1 };
            let (kj, vj) = *m.get_item(j).unwrap();
            assert!(kj.0 == e[src].0.0 && vj == e[src].1, "other entries unchanged, order kept");
        }
        None => {
            assert!(ret.is_none());
            assert!(m.len() == n);
            let j: usize = kani::any();
            kani::assume(j < n);
            let (kj, vj) = *m.get_item(j).unwrap();
            assert!(kj.0 == e[j].0.0 && vj == e[j].1);
        }
    }
}

/// C13: get_mut addresses the same entry as get.
#[kani::proof]
#[kani::unwind(5)]
fn c13_ordermap_get_mut() {
    let (mut m, e, n) = any_map();
    let k = Key(kani::any());
    let found = find(&e, n, k);
    match m.get_mut(&k) {
        Some(v) => {
            assert!(found.is_some() && *v == e[found.unwrap()].1);
            *v = v.wrapping_add(1);
        }
        None => assert!(found.is_none()),
    }
    if let Some(i) = found {
        assert!(m.get_item(i).unwrap().1 == e[i].1.wrapping_add(1));
    }
}

/// C13: two maps are equal when they have == keys mapped to == values,
/// regardless of key order (here: any permutation of <= 3 entries, and any
/// change of key representation), and unequal when a value differs.
#[kani::proof]
#[kani::unwind(5)]
fn c13_ordermap_eq_order_insensitive() {
    let (m, e, n) = any_map();
    // permute
    let p: [usize; N] = match kani::any::<u8>() % 6 {
        0 => [0, 1, 2],
        1 => [0, 2, 1],
        2 => [1, 0, 2],
        3 => [1, 2, 0],
        4 => [2, 0, 1],
        _ => [2, 1, 0],
    };
    let mut other = M::new();
    let mut i = 0;
    while i < N {
        if p[i] < n {
            let (k, v) = e[p[i]];
            // same key class, possibly different representation
            let rep: u8 = kani::any();
            other.insert(Key((k.0 / 4) * 4 + rep % 4), v);
        }
        i += 1;
    }
    assert!(other.len() == n);
    assert!(m == other, "maps with == keys and == values are equal in any order");
    assert!(other == m, "symmetric");
}
#[kani::proof]
#[kani::unwind(5)]
fn c13_ordermap_eq_detects_difference() {
    let (m, e, n) = any_map();
    kani::assume(n > 0);
    let mut other = m.clone();
    let i: usize = kani::any();
    kani::assume(i < n);
    other.insert(e[i].0, e[i].1.wrapping_add(1));
    assert!(m != other, "a differing value makes maps unequal");
    let (m2, _e2, n2) = any_map();
    if n2 != n {
        assert!(m != m2, "different sizes are unequal");
    }
}

#[kani::proof]
#[kani::unwind(5)]
fn cover_ordermap() {
    let (m, e, n) = any_map();
    let k = Key(kani::any());
    kani::cover!(n == 3 && find(&e, n, k) == Some(2) && k.0 != e[2].0.0, "== key with different representation");
    kani::cover!(m.len() == 3);
}
