//! K-snippet unit U-mapfns (C13): `do_merge`, the worker of map.merge,
//! extracted from sass/functions/map.rs on every run (tools/extract.py) and
//! instantiated at a mock value type with the constructors it uses (an atom
//! and a nested map): maps of css::Value are out of CBMC's reach.  OrderMap
//! is the real generic one.  MEASURED: with a plainly recursive mock type
//! even one insertion exceeds 15 minutes in CBMC; with the nested map in
//! ManuallyDrop and a non-recursive `==` (below) CBMC still runs out of
//! memory — the merge harness is a thorough-tier attempt and has never
//! finished; map.merge / set are NOT covered by any discharged obligation.
//! map.get / map.has-key ARE (mod `lookup` below: nested maps behind
//! references, no drop glue).
use crate::ordermap::OrderMap;

/// Stand-in value type for the merge worker: an atom or a nested map.  The
/// nested map is wrapped in ManuallyDrop (no recursive drop glue) and `==`
/// on nested maps is false (no recursive comparison; no harness uses a map
/// as a key) — both recursions are what CBMC does not finish on.
#[derive(Clone, Debug)]
enum Value {
    Atom(u8),
    Map(ValueMap),
}
impl PartialEq for Value {
    fn eq(&self, other: &Value) -> bool {
        match (self, other) {
            (Value::Atom(a), Value::Atom(b)) => a == b,
            _ => false,
        }
    }
}
#[derive(Clone, Debug)]
struct ValueMap(std::mem::ManuallyDrop<OrderMap<Value, Value>>);
impl ValueMap {
    fn new() -> ValueMap {
        ValueMap(std::mem::ManuallyDrop::new(OrderMap::new()))
    }
}
impl std::ops::Deref for ValueMap {
    type Target = OrderMap<Value, Value>;
    fn deref(&self) -> &Self::Target {
        &self.0
    }
}
impl std::ops::DerefMut for ValueMap {
    fn deref_mut(&mut self) -> &mut Self::Target {
        &mut self.0
    }
}
impl IntoIterator for ValueMap {
    type Item = (Value, Value);
    type IntoIter = <OrderMap<Value, Value> as IntoIterator>::IntoIter;
    fn into_iter(self) -> Self::IntoIter {
        std::mem::ManuallyDrop::into_inner(self.0).into_iter()
    }
}

//@item file=rsass/src/sass/functions/map.rs kind=fn name=do_merge
//@end

fn a(k: u8) -> Value {
    Value::Atom(k)
}
fn map_of(entries: &[(u8, u8)]) -> ValueMap {
    let mut m = ValueMap::new();
    let mut i = 0;
    while i < entries.len() {
        m.insert(a(entries[i].0), a(entries[i].1));
        i += 1;
    }
    m
}
fn entry(m: &ValueMap, i: usize) -> Option<(u8, u8)> {
    match m.get_item(i) {
        Some((Value::Atom(k), Value::Atom(v))) => Some((*k, *v)),
        _ => None,
    }
}

/// C13: map.merge(m1, m2) contains the keys of both, with m2's values
/// winning and m1's key order followed by m2's new keys — also when m2 is
/// the larger map.
#[kani::proof]
#[kani::unwind(6)]
fn c13_merge_order_and_values() {
    // merge((1: 10), (9: 90, 1: 11, 2: 20))
    let mut m1 = map_of(&[(1, 10)]);
    let m2 = map_of(&[(9, 90), (1, 11), (2, 20)]);
    do_merge(std::iter::empty(), &mut m1, m2);
    assert!(m1.len() == 3, "the keys of both maps");
    assert!(entry(&m1, 0) == Some((1, 11)), "m1's key first, with m2's value");
    assert!(entry(&m1, 1) == Some((9, 90)) && entry(&m1, 2) == Some((2, 20)), "then m2's new keys in m2's order");
}

// ---- map.get / map.has-key: `find_value` and the two closures, complete
// bodies extracted each run, at a stand-in value type whose nested maps and
// key lists are `&'static` REFERENCES (so the type has no recursive drop
// glue, which is what CBMC does not finish on) — lookups only read.  The
// map type is the real generic OrderMap.  Listed (regex) substitution,
// argument fetches only: `s.get(name!(x))?` -> `x_arg.clone()`. ----
pub(crate) mod lookup {
    use crate::ordermap::OrderMap;
    pub struct CallError;
    impl CallError {
        pub fn msg<T>(_m: T) -> CallError {
            CallError
        }
    }
    pub type ValueMap = OrderMap<Value, Value>;
    /// a list of keys behind a reference; `for k in &keys` works as on a Vec
    #[derive(Clone, Copy, PartialEq, Debug)]
    pub struct Keys(pub &'static [Value]);
    impl<'a> IntoIterator for &'a Keys {
        type Item = &'a Value;
        type IntoIter = core::slice::Iter<'a, Value>;
        fn into_iter(self) -> Self::IntoIter {
            self.0.iter()
        }
    }
    #[derive(Clone, Copy, PartialEq, Debug)]
    pub struct Args {
        pub positional: Keys,
        pub has_named: bool,
        pub trailing_comma: bool,
    }
    impl Args {
        pub fn check_no_named(&self) -> Result<(), String> {
            if self.has_named { Err(String::new()) } else { Ok(()) }
        }
    }
    #[derive(Clone, Copy, PartialEq, Debug)]
    pub enum Value {
        Atom(u8),
        Null,
        True,
        False,
        Map(&'static ValueMap),
        List(Keys, Option<u8>, bool),
        ArgList(Args),
    }
    impl Value {
        /// as css::Value::iter_items (an argument list written with a
        /// trailing comma gets a null item at the end)
        pub fn iter_items(self) -> Vec<Value> {
            match self {
                Value::List(k, ..) => k.0.to_vec(),
                Value::ArgList(a) => {
                    let mut v = a.positional.0.to_vec();
                    if a.trailing_comma {
                        v.push(Value::Null);
                    }
                    v
                }
                other => vec![other],
            }
        }
        pub fn is_null(&self) -> bool {
            matches!(self, Value::Null)
        }
    }
    impl From<bool> for Value {
        fn from(b: bool) -> Value {
            if b { Value::True } else { Value::False }
        }
    }
//@item file=rsass/src/sass/functions/map.rs kind=fn name=find_value
//@end
//@range file=rsass/src/sass/functions/map.rs fn=create_module after="def_va!(f, get(map, key, keys), |s| {" until="\n    });"
//@  header: pub fn snippet_get(map_arg: &ValueMap, key_arg: Value, keys_arg: Value) -> Result<Value, CallError>
//@  resubst: s\.get\(name!\((\w+)\)\)\? => \1_arg.clone()
//@end
//@range file=rsass/src/sass/functions/map.rs fn=create_module after="def_va!(f, has_key(map, key, keys), |s| {" until="\n    });"
//@  header: pub fn snippet_has_key(map_arg: &ValueMap, key_arg: Value, keys_arg: Value) -> Result<Value, CallError>
//@  resubst: s\.get\(name!\((\w+)\)\)\? => \1_arg.clone()
//@end
}

fn lk_fixture() -> lookup::ValueMap {
    use lookup::{Value as V, ValueMap};
    // (1: 10, 2: null, 3: (4: 40, 5: null))
    let mut inner = ValueMap::new();
    inner.insert(V::Atom(4), V::Atom(40));
    inner.insert(V::Atom(5), V::Null);
    let inner: &'static ValueMap = Box::leak(Box::new(inner));
    let mut m = ValueMap::new();
    m.insert(V::Atom(1), V::Atom(10));
    m.insert(V::Atom(2), V::Null);
    m.insert(V::Atom(3), V::Map(inner));
    m
}
fn lk_get(m: &lookup::ValueMap, k: u8, keys: lookup::Value) -> Option<lookup::Value> {
    lookup::snippet_get(m, lookup::Value::Atom(k), keys).ok()
}
fn lk_has(m: &lookup::ValueMap, k: u8, keys: lookup::Value) -> Option<lookup::Value> {
    lookup::snippet_has_key(m, lookup::Value::Atom(k), keys).ok()
}
/// C13: map.get / map.has-key with one key: a key is found exactly when it
/// is == to a stored key — also when the stored VALUE is null (has-key is
/// true, get gives null).
#[kani::proof]
#[kani::unwind(6)]
fn c13_get_and_has_key_single_key() {
    use lookup::Value as V;
    let m = lk_fixture();
    assert!(lk_get(&m, 1, V::Null) == Some(V::Atom(10)), "get finds a stored key");
    assert!(lk_get(&m, 9, V::Null) == Some(V::Null), "get of a missing key is null");
    assert!(lk_has(&m, 1, V::Null) == Some(V::True), "has-key finds a stored key");
    assert!(lk_has(&m, 2, V::Null) == Some(V::True), "has-key is true for a key whose value is null");
    assert!(lk_get(&m, 2, V::Null) == Some(V::Null));
    assert!(lk_has(&m, 9, V::Null) == Some(V::False), "has-key is false for a missing key");
}
/// C13: map.get / map.has-key with further keys follow nested maps; the
/// further keys may come as the rest arguments (with or without a trailing
/// comma in the call), as a list, or as a single value.
const K4: &[u8] = &[4];
const K5: &[u8] = &[5];
const K9: &[u8] = &[9];
const NOKEYS: &[u8] = &[];
fn leaked(k: &[u8]) -> &'static [lookup::Value] {
    let mut v = Vec::new();
    let mut i = 0;
    while i < k.len() {
        v.push(lookup::Value::Atom(k[i]));
        i += 1;
    }
    Box::leak(v.into_boxed_slice())
}
fn rest(k: &[u8], has_named: bool) -> lookup::Value {
    lookup::Value::ArgList(lookup::Args { positional: lookup::Keys(leaked(k)), has_named, trailing_comma: kani::any() })
}
/// C13: a call with an EMPTY rest-argument list — `map.get($m, k)` as the
/// evaluator passes it, with or without a trailing comma — is a one-key
/// lookup.
#[kani::proof]
#[kani::unwind(6)]
fn c13_get_with_empty_rest_arguments() {
    use lookup::Value as V;
    let m = lk_fixture();
    assert!(lk_get(&m, 1, rest(NOKEYS, false)) == Some(V::Atom(10)), "no further keys (a call with or without trailing comma): the value itself");
    assert!(lk_has(&m, 2, rest(NOKEYS, false)) == Some(V::True), "no further keys: the key itself");
}
#[kani::proof]
#[kani::unwind(6)]
fn c13_get_follows_further_keys() {
    use lookup::Value as V;
    let m = lk_fixture();
    assert!(lk_get(&m, 3, rest(K4, false)) == Some(V::Atom(40)), "get follows the further keys into the nested map");
    assert!(lk_get(&m, 1, rest(K4, false)) == Some(V::Null), "a further key below a non-map value: null");
    assert!(lk_get(&m, 1, rest(NOKEYS, false)) == Some(V::Atom(10)), "no further keys (a call with or without trailing comma): the value itself");
}
#[kani::proof]
#[kani::unwind(6)]
fn c13_has_key_follows_further_keys() {
    use lookup::Value as V;
    let m = lk_fixture();
    assert!(lk_has(&m, 3, rest(K5, false)) == Some(V::True), "nested key with a null value: has-key is true");
    assert!(lk_has(&m, 3, rest(K9, false)) == Some(V::False), "nested key missing: false");
    assert!(lk_has(&m, 1, rest(K4, false)) == Some(V::False), "a further key below a non-map value: false");
    assert!(lk_has(&m, 2, rest(NOKEYS, false)) == Some(V::True), "no further keys: the key itself");
}
#[kani::proof]
#[kani::unwind(6)]
fn c13_get_further_keys_as_list_or_single_value() {
    use lookup::{Keys, Value as V};
    let m = lk_fixture();
    assert!(lk_get(&m, 3, V::List(Keys(leaked(K4)), None, false)) == Some(V::Atom(40)), "keys given as a list");
    assert!(lk_get(&m, 3, V::Atom(4)) == Some(V::Atom(40)), "a single further key");
    assert!(lk_has(&m, 3, V::Atom(9)) == Some(V::False));
    assert!(lookup::snippet_get(&m, V::Atom(1), rest(NOKEYS, true)).is_err(), "named rest arguments are rejected");
}

#[kani::proof]
fn cover_mapfns() {
    let k: u8 = kani::any();
    kani::cover!(matches!(a(k), Value::Atom(7)));
}
