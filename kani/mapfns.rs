//! K-snippet unit U-mapfns (C13): `do_merge`, the worker of map.merge,
//! extracted from sass/functions/map.rs on every run (tools/extract.py) and
//! instantiated at a mock value type with the constructors it uses (an atom
//! and a nested map): maps of css::Value are out of CBMC's reach.  OrderMap
//! is the real generic one.  MEASURED: even one insertion into a map of this
//! (recursive) mock type exceeds 15 minutes in CBMC — the harness is a
//! thorough-tier attempt and has never finished; map.merge / set / get are
//! NOT covered by any discharged obligation.
use crate::ordermap::OrderMap;

#[derive(Clone, PartialEq, Debug)]
enum Value {
    Atom(u8),
    Map(ValueMap),
}
type ValueMap = OrderMap<Value, Value>;

//@item file=rsass/src/sass/functions/map.rs kind=fn name=do_merge
//@end

fn a(k: u8) -> Value {
    Value::Atom(k)
}
fn map_of(entries: &[(u8, u8)]) -> ValueMap {
    let mut m = ValueMap::new();
    let mut i = 0;
    while i < entries.len() {
        m.insert(a(entries[i].0), a(entries[i].1));
        i += 1;
    }
    m
}
fn entry(m: &ValueMap, i: usize) -> Option<(u8, u8)> {
    match m.get_item(i) {
        Some((Value::Atom(k), Value::Atom(v))) => Some((*k, *v)),
        _ => None,
    }
}

/// C13: map.merge(m1, m2) contains the keys of both, with m2's values
/// winning and m1's key order followed by m2's new keys — also when m2 is
/// the larger map.
#[kani::proof]
#[kani::unwind(6)]
fn c13_merge_order_and_values() {
    // merge((1: 10), (9: 90, 1: 11, 2: 20))
    let mut m1 = map_of(&[(1, 10)]);
    let m2 = map_of(&[(9, 90), (1, 11), (2, 20)]);
    do_merge(std::iter::empty(), &mut m1, m2);
    assert!(m1.len() == 3, "the keys of both maps");
    assert!(entry(&m1, 0) == Some((1, 11)), "m1's key first, with m2's value");
    assert!(entry(&m1, 1) == Some((9, 90)) && entry(&m1, 2) == Some((2, 20)), "then m2's new keys in m2's order");
}

#[kani::proof]
fn cover_mapfns() {
    let k: u8 = kani::any();
    kani::cover!(matches!(a(k), Value::Atom(7)));
}
