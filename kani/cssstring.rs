//! K-snippet unit U-escape (C01): the digit-accumulation step of
//! `CssString::unquote` (a backslash escape followed by hex digits),
//! extracted from rsass/src/css/string.rs on every run.  The loop runs once
//! per hex digit of the input, so after enough digits `val` is ANY u32: the
//! step is checked for every `val` and every character (an inductive-step
//! argument; the character iterator is a probe that only counts `next()`).
//! The rest of `unquote` (Peekable<Chars>, String building) is out of
//! CBMC's reach (measured: > 200 s for a 3-byte string).
use super::*;

struct Chars {
    advanced: u8,
}
impl Chars {
    fn next(&mut self) -> Option<char> {
        self.advanced += 1;
        None
    }
}

//@range file=rsass/src/css/string.rs impl="impl CssString" fn=unquote from="if let Some(digit) = c.to_digit(16) {" until="} else if !got_num {"
//@  header: fn snippet_escape_digit(mut val: u32, c: char, iter: &mut Chars) -> (u32, bool)
//@  head: let mut got_num = false;
//@  tail: } (val, got_num)
//@end

/// C01: accumulating the digits of an escape never panics (no arithmetic
/// overflow), however many digits the input has.
#[kani::proof]
fn c01_unquote_escape_digits_no_overflow() {
    let val: u32 = kani::any();
    let c: char = kani::any();
    let mut it = Chars { advanced: 0 };
    let (v, got) = snippet_escape_digit(val, c, &mut it);
    if c.to_digit(16).is_some() {
        assert!(got && it.advanced == 1, "a hex digit is consumed");
        let _ = v;
    } else {
        assert!(!got && it.advanced == 0 && v == val, "anything else is left alone");
    }
}
#[kani::proof]
fn cover_cssstring() {
    let c: char = kani::any();
    kani::cover!(c.to_digit(16) == Some(15));
}
