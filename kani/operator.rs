//! Proof harnesses for rsass/src/value/operator.rs — units U-op-num (C11:
//! + and - on numbers), U-truth part 2 (C14: and/or value selection).
//! Units and value kinds are concrete per harness (see value.rs/numeric.rs
//! for why); magnitudes are symbolic where the cost allows.
use super::*;
use crate::value::unit::kani_verif::css_ratio;
use crate::value::{Unit, UnitSet};

/// `format!` in the string arms of `eval` costs CBMC minutes per call site;
/// no law below depends on the text it produces.
fn format_stub(_args: std::fmt::Arguments<'_>) -> String {
    String::new()
}

fn numeric(v: f64, u: Unit) -> Value {
    Value::Numeric(Numeric::new(v, UnitSet::from(u)), kani::any())
}
fn parts(v: &Option<Value>) -> Option<(f64, UnitSet)> {
    match v {
        Some(Value::Numeric(n, _)) => Some((f64::from(n.value.clone()), n.unit.clone())),
        _ => None,
    }
}

/// C11 for `+` and `-`: same unit => that unit; a unitless operand takes the
/// other operand's unit; different known units convert only with a CSS-fixed
/// ratio (result in the LEFT unit), otherwise no value (=> error upstream).
/// Left magnitude: every finite double up to 1e9; right magnitude 3.
fn plus_minus(op: Operator, sign: f64, ua: Unit, ub: Unit) {
    let x: f64 = kani::any();
    kani::assume(x.is_finite() && x.abs() <= 1e9);
    let y = 3.0;
    let r = op.eval(numeric(x, ua.clone()), numeric(y, ub.clone()));
    let r = match r {
        Ok(v) => v,
        Err(_) => {
            assert!(false, "numeric +/- never reports BadOp");
            return;
        }
    };
    let got = parts(&r);
    if ua == ub || ub == Unit::None {
        assert!(got.is_some(), "same unit / unitless right operand always computes");
        let (v, u) = got.unwrap();
        assert!(v == x + sign * y, "same unit / unitless right: plain arithmetic");
        assert!(u == UnitSet::from(ua), "result keeps the left unit");
    } else if ua == Unit::None {
        assert!(got.is_some(), "unitless left operand always computes");
        let (v, u) = got.unwrap();
        assert!(v == x + sign * y, "unitless left: plain arithmetic");
        assert!(u == UnitSet::from(ub), "unitless left operand takes the right unit");
    } else {
        match css_ratio(&ub, &ua) {
            Some(ratio) => {
                assert!(got.is_some(), "convertible units must add");
                let (v, u) = got.unwrap();
                assert!(u == UnitSet::from(ua), "result in the left operand's unit");
                let want = x + sign * (y * ratio);
                assert!((v - want).abs() <= 1e-6 + want.abs() * 1e-12, "right operand scaled by the CSS ratio");
            }
            None => assert!(r.is_none(), "no fixed ratio: no sum (incompatible units)"),
        }
    }
}
macro_rules! pair {
    ($plus:ident, $minus:ident, $a:ident, $b:ident) => {
        #[kani::proof]
        #[kani::stub(std::fmt::format, format_stub)]
        #[kani::unwind(4)]
        fn $plus() {
            plus_minus(Operator::Plus, 1.0, Unit::$a, Unit::$b);
        }
        #[kani::proof]
        #[kani::stub(std::fmt::format, format_stub)]
        #[kani::unwind(4)]
        fn $minus() {
            plus_minus(Operator::Minus, -1.0, Unit::$a, Unit::$b);
        }
    };
}
pair!(c11_operator_plus_px_px, c11_operator_minus_px_px, Px, Px);
pair!(c11_operator_plus_px_none, c11_operator_minus_px_none, Px, None);
pair!(c11_operator_plus_none_px, c11_operator_minus_none_px, None, Px);
pair!(c11_operator_plus_none_percent, c11_operator_minus_none_percent, None, Percent);
pair!(c11_operator_plus_percent_none, c11_operator_minus_percent_none, Percent, None);
pair!(c11_operator_plus_in_cm, c11_operator_minus_in_cm, In, Cm);
pair!(c11_operator_plus_deg_turn, c11_operator_minus_deg_turn, Deg, Turn);
pair!(c11_operator_plus_ms_s, c11_operator_minus_ms_s, Ms, S);
pair!(c11_operator_plus_px_deg, c11_operator_minus_px_deg, Px, Deg);
pair!(c11_operator_plus_px_rem, c11_operator_minus_px_rem, Px, Rem);
pair!(c11_operator_plus_s_hz, c11_operator_minus_s_hz, S, Hz);

/// C12 through the operator table: `<`/`>`/`==` on two px numbers are
/// mutually exclusive and mirrored; `!=` is the negation of `==`.
#[kani::proof]
#[kani::stub(std::fmt::format, format_stub)]
#[kani::unwind(4)]
fn c12_operator_cmp_consistent() {
    let (x, y): (f64, f64) = (kani::any(), kani::any());
    kani::assume(!x.is_nan() && !y.is_nan());
    let t = |v: Result<Option<Value>, BadOp>| matches!(v, Ok(Some(Value::True)));
    let lt = t(Operator::Lesser.eval(numeric(x, Unit::Px), numeric(y, Unit::Px)));
    let gt = t(Operator::Greater.eval(numeric(x, Unit::Px), numeric(y, Unit::Px)));
    let eq = t(Operator::Equal.eval(numeric(x, Unit::Px), numeric(y, Unit::Px)));
    let ne = t(Operator::NotEqual.eval(numeric(x, Unit::Px), numeric(y, Unit::Px)));
    assert!(lt as u8 + gt as u8 + eq as u8 == 1, "exactly one of <, ==, >");
    assert!(ne == !eq, "!= is the negation of ==");
    let rev = t(Operator::Greater.eval(numeric(y, Unit::Px), numeric(x, Unit::Px)));
    assert!(lt == rev, "a < b iff b > a");
}

/// C14: `a and b` yields a when a is false or null and b otherwise;
/// `a or b` yields a when a is truthy and b otherwise.  The left operand's
/// kind is fixed per harness; the right operand is `true`, `null` or a number.
fn simple_value(tag: u8) -> Value {
    match tag {
        0 => Value::True,
        1 => Value::False,
        2 => Value::Null,
        3 => Value::scalar(kani::any::<f64>()),
        4 => Value::scalar(0),
        5 => Value::List(vec![], None, kani::any()),
        6 => Value::Map(Default::default()),
        7 => Value::UnicodeRange(String::new()),
        _ => Value::Color(crate::value::Rgba::from_rgb(kani::any(), 0, 0).into(), None),
    }
}
fn kind(v: &Value) -> u8 {
    match v {
        Value::True => 0,
        Value::False => 1,
        Value::Null => 2,
        Value::Numeric(..) => 3,
        Value::List(..) => 5,
        Value::Map(..) => 6,
        Value::UnicodeRange(..) => 7,
        Value::Color(..) => 8,
        _ => 99,
    }
}
fn and_or(ta: u8, tb: u8) {
    let ka = kind(&simple_value(ta));
    let kb = kind(&simple_value(tb));
    let falsey = ta == 1 || ta == 2;
    match Operator::And.eval(simple_value(ta), simple_value(tb)) {
        Ok(Some(v)) => assert!(kind(&v) == if falsey { ka } else { kb }, "and: a when a is false/null, else b"),
        _ => assert!(false, "and always yields a value"),
    }
    match Operator::Or.eval(simple_value(ta), simple_value(tb)) {
        Ok(Some(v)) => assert!(kind(&v) == if falsey { kb } else { ka }, "or: a when a is truthy, else b"),
        _ => assert!(false, "or always yields a value"),
    }
}
macro_rules! per_kind {
    ($name:ident, $ta:expr) => {
        #[kani::proof]
        #[kani::stub(std::fmt::format, format_stub)]
        #[kani::unwind(4)]
        fn $name() {
            and_or($ta, 0);
            and_or($ta, 2);
            and_or($ta, 3);
        }
    };
}
per_kind!(c14_operator_and_or_true, 0);
per_kind!(c14_operator_and_or_false, 1);
per_kind!(c14_operator_and_or_null, 2);
per_kind!(c14_operator_and_or_number, 3);
per_kind!(c14_operator_and_or_zero, 4);
per_kind!(c14_operator_and_or_empty_list, 5);
per_kind!(c14_operator_and_or_empty_map, 6);
per_kind!(c14_operator_and_or_string_like, 7);
per_kind!(c14_operator_and_or_color, 8);

// ---- K-snippet part: the numeric arms of `+` and `-` and the `and` / `or`
// arms of Operator::eval, cut out of /repo's current source on every run
// (tools/extract.py) and wrapped in functions of their free variables.
// Operator::eval as a whole takes two css::Value by value; CBMC has never
// finished a harness on it (see the attempts above).  The arms themselves
// are small: these harnesses finish, and carry the same assertions. ----

//@range file=rsass/src/value/operator.rs impl="impl Operator" fn=eval from="if a.unit == b.unit || b.is_no_unit() {\n                        Some(Numeric::new(a.value + b.value, a.unit).into())" until="\n                }\n                (Value::Literal(a), Value::Literal(b)) => {"
//@  header: fn snippet_plus_numeric(a: Numeric, b: Numeric) -> Option<Value>
//@end

//@range file=rsass/src/value/operator.rs impl="impl Operator" fn=eval from="if a.unit == b.unit || b.is_no_unit() {\n                        Some(Numeric::new(&a.value - &b.value, a.unit).into())" until="\n                }\n                // Note: This very special case"
//@  header: fn snippet_minus_numeric(a: Numeric, b: Numeric) -> Option<Value>
//@end

//@range file=rsass/src/value/operator.rs impl="impl Operator" fn=eval after="Self::And => " until=",\n            Self::Or => "
//@  header: fn snippet_and(a: Value, b: Value) -> Option<Value>
//@end

//@range file=rsass/src/value/operator.rs impl="impl Operator" fn=eval after="Self::Or => " until=",\n            Self::Equal => "
//@  header: fn snippet_or(a: Value, b: Value) -> Option<Value>
//@end

fn plus_minus_arm(f: fn(Numeric, Numeric) -> Option<Value>, sign: f64, ua: Unit, ub: Unit) {
    let x: f64 = kani::any();
    kani::assume(x.is_finite() && x.abs() <= 1e9);
    let y = 3.0;
    let r = f(Numeric::new(x, UnitSet::from(ua.clone())), Numeric::new(y, UnitSet::from(ub.clone())));
    let got = parts(&r);
    if ua == ub || ub == Unit::None {
        assert!(got.is_some(), "same unit / unitless right operand always computes");
        let (v, u) = got.unwrap();
        assert!(v == x + sign * y, "same unit / unitless right: plain arithmetic");
        assert!(u == UnitSet::from(ua), "result keeps the left unit");
    } else if ua == Unit::None {
        assert!(got.is_some(), "unitless left operand always computes");
        let (v, u) = got.unwrap();
        assert!(v == x + sign * y, "unitless left: plain arithmetic");
        assert!(u == UnitSet::from(ub), "unitless left operand takes the right unit");
    } else {
        match css_ratio(&ub, &ua) {
            Some(ratio) => {
                assert!(got.is_some(), "convertible units must add");
                let (v, u) = got.unwrap();
                assert!(u == UnitSet::from(ua), "result in the left operand's unit");
                let want = x + sign * (y * ratio);
                assert!((v - want).abs() <= 1e-6 + want.abs() * 1e-12, "right operand scaled by the CSS ratio");
            }
            None => assert!(r.is_none(), "no fixed ratio: no sum (incompatible units)"),
        }
    }
}
macro_rules! arm_pair {
    ($plus:ident, $minus:ident, $a:ident, $b:ident) => {
        #[kani::proof]
        #[kani::unwind(4)]
        fn $plus() {
            plus_minus_arm(snippet_plus_numeric, 1.0, Unit::$a, Unit::$b);
        }
        #[kani::proof]
        #[kani::unwind(4)]
        fn $minus() {
            plus_minus_arm(snippet_minus_numeric, -1.0, Unit::$a, Unit::$b);
        }
    };
}
arm_pair!(c11_plus_arm_px_px, c11_minus_arm_px_px, Px, Px);
arm_pair!(c11_plus_arm_px_none, c11_minus_arm_px_none, Px, None);
arm_pair!(c11_plus_arm_none_px, c11_minus_arm_none_px, None, Px);
arm_pair!(c11_plus_arm_none_percent, c11_minus_arm_none_percent, None, Percent);
arm_pair!(c11_plus_arm_percent_none, c11_minus_arm_percent_none, Percent, None);
arm_pair!(c11_plus_arm_in_cm, c11_minus_arm_in_cm, In, Cm);
arm_pair!(c11_plus_arm_deg_turn, c11_minus_arm_deg_turn, Deg, Turn);
arm_pair!(c11_plus_arm_ms_s, c11_minus_arm_ms_s, Ms, S);
arm_pair!(c11_plus_arm_px_deg, c11_minus_arm_px_deg, Px, Deg);
arm_pair!(c11_plus_arm_px_rem, c11_minus_arm_px_rem, Px, Rem);
arm_pair!(c11_plus_arm_s_hz, c11_minus_arm_s_hz, S, Hz);

fn and_or_arm(ta: u8, tb: u8) {
    let ka = kind(&simple_value(ta));
    let kb = kind(&simple_value(tb));
    let falsey = ta == 1 || ta == 2;
    match snippet_and(simple_value(ta), simple_value(tb)) {
        Some(v) => assert!(kind(&v) == if falsey { ka } else { kb }, "and: a when a is false/null, else b"),
        None => assert!(false, "and always yields a value"),
    }
    match snippet_or(simple_value(ta), simple_value(tb)) {
        Some(v) => assert!(kind(&v) == if falsey { kb } else { ka }, "or: a when a is truthy, else b"),
        None => assert!(false, "or always yields a value"),
    }
}
macro_rules! arm_kind {
    ($name:ident, $ta:expr) => {
        #[kani::proof]
        #[kani::unwind(4)]
        fn $name() {
            and_or_arm($ta, 0);
            and_or_arm($ta, 2);
            and_or_arm($ta, 3);
        }
    };
}
arm_kind!(c14_and_or_arm_true, 0);
arm_kind!(c14_and_or_arm_false, 1);
arm_kind!(c14_and_or_arm_null, 2);
arm_kind!(c14_and_or_arm_number, 3);
arm_kind!(c14_and_or_arm_zero, 4);
arm_kind!(c14_and_or_arm_empty_list, 5);
arm_kind!(c14_and_or_arm_empty_map, 6);
arm_kind!(c14_and_or_arm_string_like, 7);
arm_kind!(c14_and_or_arm_color, 8);
