//! Proof harnesses for rsass/src/value/operator.rs — units U-op-num (C11:
//! + and - on numbers), U-truth part 2 (C14: and/or value selection).
use super::*;
use crate::value::unit::kani_verif::{css_ratio, known_unit};
use crate::value::{Number, Unit, UnitSet};

fn numeric(v: f64, u: Unit) -> Value {
    Value::Numeric(Numeric::new(v, UnitSet::from(u)), kani::any())
}
fn parts(v: &Option<Value>) -> Option<(f64, UnitSet)> {
    match v {
        Some(Value::Numeric(n, _)) => Some((f64::from(n.value.clone()), n.unit.clone())),
        _ => None,
    }
}

/// C11 for `+` and `-`: same unit => that unit; a unitless operand takes the
/// other operand's unit; different known units convert only with a CSS-fixed
/// ratio (result in the LEFT unit), otherwise no value (=> error upstream).
fn plus_minus(op: Operator, sign: f64) {
    let (ua, ub) = (known_unit(kani::any()), known_unit(kani::any()));
    let (x, y): (f64, f64) = (kani::any(), kani::any());
    kani::assume(x.is_finite() && y.is_finite() && x.abs() <= 1e9 && y.abs() <= 1e9);
    let r = op.eval(numeric(x, ua.clone()), numeric(y, ub.clone()));
    let r = match r {
        Ok(v) => v,
        Err(_) => {
            assert!(false, "numeric +/- never reports BadOp");
            return;
        }
    };
    let got = parts(&r);
    if ua == ub || ub == Unit::None {
        let (v, u) = got.unwrap();
        assert!(v == x + sign * y, "same unit / unitless right: plain arithmetic");
        assert!(u == UnitSet::from(ua), "result keeps the left unit");
    } else if ua == Unit::None {
        let (v, u) = got.unwrap();
        assert!(v == x + sign * y);
        assert!(u == UnitSet::from(ub), "unitless left operand takes the right unit");
    } else {
        match css_ratio(&ub, &ua) {
            Some(ratio) => {
                assert!(got.is_some(), "convertible units must add");
                let (v, u) = got.unwrap();
                assert!(u == UnitSet::from(ua), "result in the left operand's unit");
                let want = x + sign * (y * ratio);
                assert!((v - want).abs() <= 1e-6 + want.abs() * 1e-12, "right operand scaled by the CSS ratio");
            }
            None => assert!(r.is_none(), "no fixed ratio: no sum (incompatible units)"),
        }
    }
}
#[kani::proof]
#[kani::unwind(4)]
fn c11_operator_plus_units() {
    plus_minus(Operator::Plus, 1.0);
}
#[kani::proof]
#[kani::unwind(4)]
fn c11_operator_minus_units() {
    plus_minus(Operator::Minus, -1.0);
}

/// C11 for comparison operators on two numbers: `<` `<=` `>` `>=` agree with
/// Numeric::partial_cmp; `==`/`!=` are each other's negation.
#[kani::proof]
#[kani::unwind(4)]
fn c12_operator_cmp_consistent() {
    let u = known_unit(kani::any());
    let (x, y): (f64, f64) = (kani::any(), kani::any());
    let mk = || (numeric(x, u.clone()), numeric(y, u.clone()));
    let t = |v: Result<Option<Value>, BadOp>| matches!(v, Ok(Some(Value::True)));
    let f = |v: Result<Option<Value>, BadOp>| matches!(v, Ok(Some(Value::False)));
    let (a, b) = mk();
    let eq = Operator::Equal.eval(a, b);
    let (a, b) = mk();
    let ne = Operator::NotEqual.eval(a, b);
    assert!((t(eq) && f(ne)) || (matches!(Operator::Equal.eval(mk().0, mk().1), Ok(Some(Value::False))) && t(Operator::NotEqual.eval(mk().0, mk().1))), "!= is the negation of ==");
    let (a, b) = mk();
    let lt = t(Operator::Lesser.eval(a, b));
    let (a, b) = mk();
    let gt = t(Operator::Greater.eval(a, b));
    let (a, b) = mk();
    let e = t(Operator::Equal.eval(a, b));
    if !x.is_nan() && !y.is_nan() {
        assert!(lt as u8 + gt as u8 + e as u8 == 1, "exactly one of <, ==, >");
    }
    let (a, b) = mk();
    let rev = t(Operator::Greater.eval(b, a));
    assert!(lt == rev, "a < b iff b > a");
}

/// C14: `a and b` yields a when a is false or null and b otherwise;
/// `a or b` yields a when a is truthy and b otherwise.  Operands range over
/// the value kinds of the property (booleans, null, numbers incl. 0 and NaN,
/// strings, empty list, empty map, color).
fn any_simple_value(tag: u8) -> Value {
    match tag % 9 {
        0 => Value::True,
        1 => Value::False,
        2 => Value::Null,
        3 => Value::scalar(kani::any::<f64>()),
        4 => Value::scalar(0),
        5 => Value::List(vec![], None, kani::any()),
        6 => Value::Map(Default::default()),
        7 => Value::UnicodeRange(String::new()),
        _ => Value::Color(crate::value::Rgba::from_rgb(kani::any(), 0, 0).into(), None),
    }
}
fn kind(v: &Value) -> u8 {
    match v {
        Value::True => 0,
        Value::False => 1,
        Value::Null => 2,
        Value::Numeric(..) => 3,
        Value::List(..) => 5,
        Value::Map(..) => 6,
        Value::UnicodeRange(..) => 7,
        Value::Color(..) => 8,
        _ => 99,
    }
}
#[kani::proof]
#[kani::unwind(4)]
fn c14_operator_and_or_select() {
    let (ta, tb): (u8, u8) = (kani::any(), kani::any());
    kani::assume(ta < 9 && tb < 9);
    let ka = kind(&any_simple_value(ta));
    let kb = kind(&any_simple_value(tb));
    let falsey = ta == 1 || ta == 2;
    let and = Operator::And.eval(any_simple_value(ta), any_simple_value(tb));
    match and {
        Ok(Some(v)) => assert!(kind(&v) == if falsey { ka } else { kb }, "and: a when a is false/null, else b"),
        _ => assert!(false, "and always yields a value"),
    }
    let or = Operator::Or.eval(any_simple_value(ta), any_simple_value(tb));
    match or {
        Ok(Some(v)) => assert!(kind(&v) == if falsey { kb } else { ka }, "or: a when a is truthy, else b"),
        _ => assert!(false, "or always yields a value"),
    }
}
