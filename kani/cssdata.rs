//! K-snippet unit U-buffer-tail-k (C01, C07): Kani twin of the Verus unit
//! V-buffer-tail.  The tail of `CssData::into_buffer` (everything after
//! `let buf = buf.take();`) is cut out of /repo's current source on every
//! run (tools/extract.py) and wrapped in a function of its free variables
//! (`buf`, `format`).  Verus proves the framing postcondition for every
//! buffer but gives no counterexample and rejects many Rust constructs; this
//! twin checks the same clauses, plus panic-freedom (C01), on every buffer
//! of at most 3 bytes, and yields a concrete failing buffer.  Bounded.
use super::*;
use crate::output::Style;

/// `crate::Error` appears only as the (never constructed) error type of the
/// result; its drop glue is out of CBMC's reach, so inside this module
/// `Error` is `()` (listed abstraction).
mod tail {
    use crate::output::Format;
    pub(super) type Error = ();
//@range file=rsass/src/output/cssdata.rs impl="impl CssData" fn=into_buffer after="let buf = buf.take();"
//@  header: pub(super) fn snippet_into_buffer_tail(buf: Vec<u8>, format: Format) -> Result<Vec<u8>, Error>
//@end
}

/// Buffers of exactly N symbolic bytes (a concrete length keeps the loops of
/// `is_ascii`, `extend` and the trimming loop concrete; one harness per
/// length and style).
fn tail_laws<const N: usize>(style: Style) {
    let bytes: [u8; N] = kani::any();
    let buf = bytes.to_vec();
    let ascii = {
        let mut a = true;
        let mut k = 0;
        while k < N {
            if bytes[k] >= 128 {
                a = false;
            }
            k += 1;
        }
        a
    };
    let format = Format { style, precision: kani::any() };
    let compressed = format.is_compressed();
    let out = match tail::snippet_into_buffer_tail(buf, format) {
        Ok(o) => o,
        Err(_) => {
            assert!(false, "the framing tail never fails");
            return;
        }
    };
    // C07: empty, or ends with exactly one newline
    if !out.is_empty() {
        assert!(out[out.len() - 1] == b'\n', "non-empty output ends with a newline");
        let exposed = compressed && out.len() >= 2 && out[out.len() - 2] == b'\n';
        // (compressed text ending in newline + `;`: popping the `;` exposes a newline — same exception as in V-buffer-tail)
        assert!(out.len() >= 2 && (out[out.len() - 2] != b'\n' || exposed), "… exactly one");
    }
    // C07: pure ASCII unless it begins with the marker; marker whenever non-ASCII
    let i: usize = kani::any();
    kani::assume(i < out.len());
    if ascii {
        assert!(out[i] < 128, "ASCII input gives ASCII output (no marker)");
    } else if compressed {
        assert!(out.len() > 3 && out[0] == 0xEF && out[1] == 0xBB && out[2] == 0xBF, "compressed non-ASCII output begins with a byte-order mark");
    } else {
        let m = b"@charset \"UTF-8\";\n";
        assert!(out.len() > m.len() && (i >= m.len() || out[i] == m[i]), "expanded non-ASCII output begins with @charset \"UTF-8\";");
    }
}

macro_rules! tail_case {
    ($name:ident, $n:expr, $style:expr) => {
        #[kani::proof]
        #[kani::unwind(30)]
        fn $name() {
            tail_laws::<$n>($style)
        }
    };
}
tail_case!(c07_into_buffer_tail_expanded_0, 0, Style::Expanded);
tail_case!(c07_into_buffer_tail_expanded_1, 1, Style::Expanded);
tail_case!(c07_into_buffer_tail_expanded_2, 2, Style::Expanded);
tail_case!(c07_into_buffer_tail_expanded_3, 3, Style::Expanded);
tail_case!(c07_into_buffer_tail_compressed_0, 0, Style::Compressed);
tail_case!(c07_into_buffer_tail_compressed_1, 1, Style::Compressed);
tail_case!(c07_into_buffer_tail_compressed_2, 2, Style::Compressed);
tail_case!(c07_into_buffer_tail_compressed_3, 3, Style::Compressed);

#[kani::proof]
#[kani::unwind(30)]
fn cover_cssdata() {
    let bytes: [u8; 2] = kani::any();
    kani::cover!(bytes[0] >= 128);
}
