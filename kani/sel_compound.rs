//! Proof harnesses for rsass/src/css/selectors/compound.rs — unit U-selectors
//! (C22): CompoundSelector::no_placeholder on the real struct.  Also the
//! constructors the sibling harness files use (the fields are private to
//! this module).
use super::*;

/// A compound selector `[a][%p][.c]` + the given pseudo selectors.
pub(crate) fn mk(element: bool, placeholder: bool, class: bool, pseudo: Vec<Pseudo>) -> CompoundSelector {
    let mut c = CompoundSelector::default();
    if placeholder {
        c.placeholders.push(String::from("p"));
    }
    if class {
        c.classes.push(String::from("c"));
    }
    if element {
        c.id = Some(String::from("i"));
    }
    c.pseudo = pseudo;
    c
}
/// (number of placeholders, classes, has id, number of pseudo selectors)
pub(crate) fn shape(c: &CompoundSelector) -> (usize, usize, bool, usize) {
    (c.placeholders.len(), c.classes.len(), c.id.is_some(), c.pseudo.len())
}

/// C22: a compound selector that contains a placeholder matches nothing
/// (the complex selector it belongs to is removed); one without placeholder
/// and without pseudo selectors is kept unchanged.
#[kani::proof]
#[kani::unwind(4)]
fn c22_compound_with_placeholder_is_removed() {
    let (id, class): (bool, bool) = (kani::any(), kani::any());
    assert!(matches!(mk(id, true, class, vec![]).no_placeholder(), Opt::None), "a compound with a placeholder is removed");
}
#[kani::proof]
#[kani::unwind(4)]
fn c22_compound_without_placeholder_is_kept() {
    let (id, class): (bool, bool) = (kani::any(), kani::any());
    let c = mk(id, false, class, vec![]);
    match c.no_placeholder() {
        // (compared through `shape`: the derived == recurses through Vec<Pseudo> and costs CBMC > 18 GB)
        Opt::Some(r) => assert!(shape(&r) == shape(&c), "a compound without placeholder is kept unchanged"),
        _ => assert!(false, "a compound without placeholder is kept"),
    }
}
