//! Contracts and proof harnesses for rsass/src/value/colors/convert.rs
//! Unit U-color-conv (C31: conversions keep channels in range / round trip).
use super::super::hsla::kani_verif::{any_hsla_valid, valid as hsla_valid};
use super::super::hwba::kani_verif::any_hwba_valid;
use super::super::rgba::kani_verif::{any_rgba_valid, in_range as rgba_in_range};
use super::*;

/// Contract of `max_min_largest` (non-NaN inputs): max/min are the extreme
/// values and `largest` indexes an argument equal to max.
pub(crate) fn mml_pre(a: f64, b: f64, c: f64) -> bool {
    !a.is_nan() && !b.is_nan() && !c.is_nan()
}
pub(crate) fn mml_post(a: f64, b: f64, c: f64, r: &(f64, f64, u32)) -> bool {
    let (max, min, largest) = *r;
    max >= a
        && max >= b
        && max >= c
        && min <= a
        && min <= b
        && min <= c
        && largest <= 2
        && max == [a, b, c][largest as usize]
        && (min == a || min == b || min == c)
}

#[kani::proof_for_contract(max_min_largest)]
fn c31_max_min_largest_contract() {
    max_min_largest(kani::any(), kani::any(), kani::any());
}

/// C31: rgb -> hsl reports hue in [0,360), saturation in [0,1], lightness in
/// [0,1] and the same alpha, for every in-range rgba.
#[kani::proof]
#[kani::stub(crate::value::colors::hsla::deg_mod, crate::value::colors::hsla::kani_verif::deg_mod_by_contract)]
fn c31_rgba_to_hsla_in_range() {
    let c = any_rgba_valid();
    let h = Hsla::from(&c);
    assert!(0.0 <= h.hue() && h.hue() < 360.0, "hue in [0,360)");
    assert!(0.0 <= h.sat() && h.sat() <= 1.0, "saturation in [0,100%]");
    assert!(0.0 <= h.lum() && h.lum() <= 1.0, "lightness in [0,100%]");
    assert!(h.alpha() == c.alpha(), "alpha preserved");
}
/// C31 grey corner: r == g == b gives hue 0, saturation 0, lightness r/255.
#[kani::proof]
#[kani::stub(crate::value::colors::hsla::deg_mod, crate::value::colors::hsla::kani_verif::deg_mod_by_contract)]
fn c31_rgba_grey_to_hsla() {
    let v: f64 = kani::any();
    let a: f64 = kani::any();
    kani::assume(0.0 <= v && v <= 255.0 && 0.0 <= a && a <= 1.0);
    let h = Hsla::from(&Rgba::new(v, v, v, a, RgbFormat::Rgb));
    assert!(h.hue() == 0.0 && h.sat() == 0.0 && h.lum() == v / 255.0 && h.alpha() == a);
}
/// C31: hsl -> rgb gives in-range channels and keeps alpha; greys
/// (saturation 0) map to r == g == b == 255*l.
#[kani::proof]
#[kani::stub(crate::value::colors::hsla::deg_mod, crate::value::colors::hsla::kani_verif::deg_mod_by_contract)]
fn c31_hsla_to_rgba_in_range() {
    let h = any_hsla_valid();
    let c = Rgba::from(&h);
    assert!(rgba_in_range(&c));
    assert!(c.alpha() == h.alpha(), "alpha preserved");
    if h.sat() == 0.0 {
        assert!(c.red() == c.green() && c.green() == c.blue() && c.red() == h.lum() * 255.0);
    }
}
/// C31: rgb -> hwb reports whiteness/blackness in [0,1] with w+b <= 1.
#[kani::proof]
#[kani::stub(crate::value::colors::hsla::deg_mod, crate::value::colors::hsla::kani_verif::deg_mod_by_contract)]
fn c31_rgba_to_hwba_in_range() {
    let c = any_rgba_valid();
    let w = Hwba::from(&c);
    assert!(0.0 <= w.whiteness() && w.whiteness() <= 1.0, "whiteness");
    assert!(0.0 <= w.blackness() && w.blackness() <= 1.0, "blackness");
    assert!(w.whiteness() + w.blackness() <= 1.0 + 1e-15, "w+b<=1");
    assert!(0.0 <= w.hue() && w.hue() < 360.0, "hue");
    assert!(w.alpha() == c.alpha());
}
/// C31: hwb -> hsl reports hue in [0,360), sat >= 0, lightness in [0,1].
#[kani::proof]
#[kani::stub(crate::value::colors::hsla::deg_mod, crate::value::colors::hsla::kani_verif::deg_mod_by_contract)]
fn c31_hwba_to_hsla_in_range() {
    let w = any_hwba_valid();
    let h = Hsla::from(&w);
    assert!(hsla_valid(&h), "hsla invariant");
    assert!(0.0 <= h.lum() && h.lum() <= 1.0, "lightness in [0,1]");
    assert!(h.sat() <= 1.0 + 1e-9, "saturation <= 100%");
    assert!(h.alpha() == w.alpha());
}

/// C31: hsl -> hwb (what whiteness()/blackness() of an hsl color report):
/// whiteness and blackness in [0,1], w + b <= 1, hue and alpha kept.
#[kani::proof]
#[kani::stub(crate::value::colors::hsla::deg_mod, crate::value::colors::hsla::kani_verif::deg_mod_by_contract)]
fn c31_hsla_to_hwba_in_range() {
    let h = any_hsla_valid();
    let w = Hwba::from(&h);
    assert!(0.0 <= w.whiteness() && w.whiteness() <= 1.0, "whiteness in [0, 100%]");
    assert!(0.0 <= w.blackness() && w.blackness() <= 1.0, "blackness in [0, 100%]");
    assert!(w.whiteness() + w.blackness() <= 1.0 + 1e-9, "w + b <= 100%");
    assert!(w.hue() == h.hue() && w.alpha() == h.alpha(), "hue and alpha kept");
}

/// C31: the same on concrete probe colors (the symbolic version above
/// exceeds 15 minutes): a light and a dark hsl color report whiteness and
/// blackness in range, equal to those of the rgb color they denote.
#[kani::proof]
#[kani::stub(crate::value::colors::hsla::deg_mod, crate::value::colors::hsla::kani_verif::deg_mod_by_contract)]
fn c31_hsla_to_hwba_probe() {
    // hsl(210, 100%, 80%) = #99ccff: whiteness 60%, blackness 0%
    let light = Hwba::from(&Hsla::new(210.0, 1.0, 0.8, 1.0, true));
    assert!((light.whiteness() - 0.6).abs() < 1e-9 && light.blackness().abs() < 1e-9, "hsl(210, 100%, 80%): whiteness 60%, blackness 0%");
    // hsl(210, 50%, 40%) = #336699: whiteness 20%, blackness 40%
    let dark = Hwba::from(&Hsla::new(210.0, 0.5, 0.4, 1.0, true));
    assert!((dark.whiteness() - 0.2).abs() < 1e-9 && (dark.blackness() - 0.4).abs() < 1e-9, "hsl(210, 50%, 40%): whiteness 20%, blackness 40%");
}

/// C31 round trip (attempt; expensive float reasoning): rebuilding an rgb
/// color from its own hsl channels gives an equal color.
#[kani::proof]
#[kani::stub(crate::value::colors::hsla::deg_mod, crate::value::colors::hsla::kani_verif::deg_mod_by_contract)]
fn c31_roundtrip_rgb_hsl_rgb() {
    let c = any_rgba_valid();
    let back = Rgba::from(&Hsla::from(&c));
    assert!((back.red() - c.red()).abs() < 1e-7);
    assert!((back.green() - c.green()).abs() < 1e-7);
    assert!((back.blue() - c.blue()).abs() < 1e-7);
    assert!(back.alpha() == c.alpha());
}
/// Round trip restricted to byte-valued channels (all 2^24 hex colors).
#[kani::proof]
#[kani::stub(crate::value::colors::hsla::deg_mod, crate::value::colors::hsla::kani_verif::deg_mod_by_contract)]
fn c31_roundtrip_bytes_rgb_hsl_rgb() {
    let (r, g, b): (u8, u8, u8) = (kani::any(), kani::any(), kani::any());
    let c = Rgba::from_rgb(r, g, b);
    let back = Rgba::from(&Hsla::from(&c));
    assert!(back.cmp(&c) == std::cmp::Ordering::Equal, "hex color survives rgb->hsl->rgb");
}

#[kani::proof]
#[kani::stub(crate::value::colors::hsla::deg_mod, crate::value::colors::hsla::kani_verif::deg_mod_by_contract)]
fn cover_convert() {
    let c = any_rgba_valid();
    let h = Hsla::from(&c);
    kani::cover!(h.sat() > 0.5 && h.hue() > 300.0);
    let (a, b, d): (f64, f64, f64) = (kani::any(), kani::any(), kani::any());
    kani::cover!(mml_pre(a, b, d) && a < b && b < d);
}
