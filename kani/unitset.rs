//! Proof harnesses for rsass/src/value/unitset.rs — unit U-unitset (C11:
//! "Multiplication and division add or subtract unit exponents"; C01: the
//! `i8` exponent arithmetic).  Bounded: operands of at most 2 entries.
use super::super::unit::kani_verif::{css_ratio, known_unit};
use super::*;

/// A well-formed operand: <= 2 entries, distinct known units, non-zero
/// exponents (the invariant `Mul`/`Div`/`From<Unit>` maintain).
fn any_unitset(max_exp: i8) -> UnitSet {
    let n: u8 = kani::any();
    kani::assume(n <= 2);
    let (u0, u1) = (known_unit(kani::any()), known_unit(kani::any()));
    let (p0, p1): (i8, i8) = (kani::any(), kani::any());
    kani::assume(p0 != 0 && p1 != 0 && u0 != u1 && u0 != Unit::None && u1 != Unit::None);
    kani::assume(-max_exp <= p0 && p0 <= max_exp && -max_exp <= p1 && p1 <= max_exp);
    let mut units = Vec::new();
    if n >= 1 {
        units.push((u0, p0));
    }
    if n >= 2 {
        units.push((u1, p1));
    }
    UnitSet { units }
}
fn exp_of(s: &UnitSet, u: &Unit) -> i32 {
    let mut e = 0i32;
    let mut i = 0;
    while i < s.units.len() {
        if s.units[i].0 == *u {
            e += i32::from(s.units[i].1);
        }
        i += 1;
    }
    e
}
fn well_formed(s: &UnitSet) -> bool {
    let (i, j): (usize, usize) = (kani::any(), kani::any());
    (i >= s.units.len() || s.units[i].1 != 0)
        && (!(i < j && j < s.units.len()) || s.units[i].0 != s.units[j].0)
}

/// C11: multiplication adds unit exponents, unit by unit; entries whose
/// exponent becomes zero disappear; no unit appears twice.
#[kani::proof]
#[kani::unwind(6)]
fn c11_unitset_mul_adds_exponents() {
    let (a, b) = (any_unitset(60), any_unitset(60));
    let r = &a * &b;
    let u = known_unit(kani::any());
    assert!(exp_of(&r, &u) == exp_of(&a, &u) + exp_of(&b, &u), "mul: exponent = sum");
    assert!(well_formed(&r), "mul: no zero exponents, no duplicate units");
}
/// C11: division subtracts unit exponents.
#[kani::proof]
#[kani::unwind(6)]
fn c11_unitset_div_subtracts_exponents() {
    let (a, b) = (any_unitset(60), any_unitset(60));
    let r = &a / &b;
    let u = known_unit(kani::any());
    assert!(exp_of(&r, &u) == exp_of(&a, &u) - exp_of(&b, &u), "div: exponent = difference");
    assert!(well_formed(&r), "div: no zero exponents, no duplicate units");
}
/// C01: the exponent arithmetic never overflows `i8` — for ANY exponents a
/// stylesheet can build up by repeated multiplication.
#[kani::proof]
#[kani::unwind(6)]
fn c01_unitset_mul_no_overflow() {
    let (a, b) = (any_unitset(127), any_unitset(127));
    let _ = &a * &b;
}
#[kani::proof]
#[kani::unwind(6)]
fn c01_unitset_div_no_overflow() {
    let (a, b) = (any_unitset(127), any_unitset(127));
    let _ = &a / &b;
}

/// C11: a single-unit set converts to a unit exactly as `Unit::scale_to`
/// says, a unitless set converts like `Unit::None`, and compound sets do
/// not convert to a plain unit at all.
#[kani::proof]
#[kani::unwind(6)]
fn c11_unitset_scale_to_unit() {
    let a = any_unitset(3);
    let to = known_unit(kani::any());
    let got = a.scale_to_unit(&to);
    if a.units.len() == 1 && a.units[0].1 == 1 {
        let from = a.units[0].0.clone();
        assert!(got == from.scale_to(&to), "single unit: delegates to Unit::scale_to");
        if from != to && to != Unit::None {
            // carried over from U-unit-table: only CSS-fixed ratios convert
            match (css_ratio(&from, &to), got) {
                (Some(w), Some(f)) => assert!((f - w).abs() <= w * 1e-14),
                (None, None) => (),
                _ => assert!(false, "UnitSet::scale_to_unit converts exactly the CSS-fixed pairs"),
            }
        }
    } else if a.units.is_empty() {
        assert!(got == Unit::None.scale_to(&to));
    } else {
        assert!(got.is_none(), "compound unit never converts to a plain unit");
    }
}
/// C11: `is_none` is true exactly for the empty (unitless) set under the
/// well-formedness invariant.
#[kani::proof]
#[kani::unwind(6)]
fn c11_unitset_is_none() {
    let a = any_unitset(3);
    assert!(a.is_none() == a.units.is_empty());
    assert!(UnitSet::scalar().is_none());
    assert!(UnitSet::from(Unit::None).is_none());
    let u = known_unit(kani::any());
    kani::assume(u != Unit::None);
    assert!(!UnitSet::from(u).is_none());
}

/// C11 "cancel convertible units": simplify() merges only units that
/// convert into each other and keeps the per-class exponent sum.
#[kani::proof]
#[kani::unwind(6)]
fn c11_unitset_simplify_exponents() {
    let a = any_unitset(3);
    let mut s = a.clone();
    let _factor = s.simplify();
    assert!(well_formed(&s), "simplify: no zero exponents, no duplicates");
    if a.units.len() == 2 {
        let (u0, u1) = (a.units[0].0.clone(), a.units[1].0.clone());
        if css_ratio(&u1, &u0).is_none() {
            // not convertible => untouched
            assert!(s.units.len() == 2 && s.units[0] == a.units[0] && s.units[1] == a.units[1],
                "simplify leaves non-convertible units alone");
        } else {
            let total = i32::from(a.units[0].1) + i32::from(a.units[1].1);
            let got: i32 = exp_of(&s, &u0) + exp_of(&s, &u1);
            assert!(got == total, "simplify keeps the dimension's total exponent");
            assert!(s.units.len() <= 1, "convertible units are merged");
        }
    } else {
        assert!(s == a);
    }
}

#[kani::proof]
#[kani::unwind(6)]
fn cover_unitset() {
    let (a, b) = (any_unitset(60), any_unitset(60));
    let r = &a * &b;
    kani::cover!(a.units.len() == 2 && b.units.len() == 2 && r.units.is_empty(), "full cancellation reachable");
    kani::cover!(r.units.len() == 4);
}
