//! Proof harnesses for rsass/src/value/unitset.rs — unit U-unitset (C11:
//! "Multiplication and division add or subtract unit exponents and cancel
//! convertible units"; C01: the `i8` exponent arithmetic).
//!
//! Bounded: operands of at most 2 entries.  The UNITS in each harness are
//! concrete (CBMC's cost explodes on a symbolic `Unit`, whose `Unknown`
//! variant owns a `String`); every way the two operands can share units is
//! its own harness ("shape"), the EXPONENTS are fully symbolic.
use super::*;

fn exp_of(s: &UnitSet, u: &Unit) -> i32 {
    let mut e = 0i32;
    let mut i = 0;
    while i < s.units.len() {
        if s.units[i].0 == *u {
            e += i32::from(s.units[i].1);
        }
        i += 1;
    }
    e
}
fn well_formed(s: &UnitSet) -> bool {
    let (i, j): (usize, usize) = (kani::any(), kani::any());
    (i >= s.units.len() || s.units[i].1 != 0)
        && (!(i < j && j < s.units.len()) || s.units[i].0 != s.units[j].0)
}
fn exp(max: i8) -> i8 {
    let p: i8 = kani::any();
    kani::assume(p != 0 && -max <= p && p <= max);
    p
}
fn set1(u: Unit, max: i8) -> UnitSet {
    UnitSet { units: vec![(u, exp(max))] }
}
fn set2(u: Unit, v: Unit, max: i8) -> UnitSet {
    UnitSet { units: vec![(u, exp(max)), (v, exp(max))] }
}

/// The obligation for one pair of operands: every unit's exponent in the
/// product (quotient) is the sum (difference) of its exponents in the
/// operands; zero exponents are dropped; no unit appears twice.
fn check_mul(a: UnitSet, b: UnitSet, units: &[Unit]) {
    let m = &a * &b;
    let k: usize = kani::any();
    kani::assume(k < units.len());
    let u = &units[k];
    assert!(exp_of(&m, u) == exp_of(&a, u) + exp_of(&b, u), "mul: exponent = sum of exponents");
    assert!(well_formed(&m), "mul: no zero exponents, no duplicate units");
}
fn check_div(a: UnitSet, b: UnitSet, units: &[Unit]) {
    let d = &a / &b;
    let k: usize = kani::any();
    kani::assume(k < units.len());
    let u = &units[k];
    assert!(exp_of(&d, u) == exp_of(&a, u) - exp_of(&b, u), "div: exponent = difference of exponents");
    assert!(well_formed(&d), "div: no zero exponents, no duplicate units");
}

macro_rules! shape {
    ($mul:ident, $div:ident, $unwind:expr, $a:expr, $b:expr, $units:expr) => {
        #[kani::proof]
        #[kani::unwind($unwind)]
        fn $mul() {
            check_mul($a, $b, &$units);
        }
        #[kani::proof]
        #[kani::unwind($unwind)]
        fn $div() {
            check_div($a, $b, &$units);
        }
    };
}
shape!(c11_unitset_mul_same_one, c11_unitset_div_same_one, 3, set1(Unit::Px, 60), set1(Unit::Px, 60), [Unit::Px]);
shape!(c11_unitset_mul_diff_one, c11_unitset_div_diff_one, 4, set1(Unit::Px, 60), set1(Unit::Deg, 60), [Unit::Px, Unit::Deg]);
shape!(c11_unitset_mul_two_second, c11_unitset_div_two_second, 4, set2(Unit::Px, Unit::Deg, 60), set1(Unit::Deg, 60), [Unit::Px, Unit::Deg]);
// (a 2x2 shape exhausts CBMC's memory: the left operand has <= 2 entries, the right operand 1)

/// C01: the exponent arithmetic never overflows `i8` — for ANY exponents a
/// stylesheet can build up by repeated multiplication / division.
#[kani::proof]
#[kani::unwind(3)]
fn c01_unitset_mul_no_overflow() {
    let _ = &set1(Unit::Px, 127) * &set1(Unit::Px, 127);
}
#[kani::proof]
#[kani::unwind(3)]
fn c01_unitset_div_no_overflow() {
    let _ = &set1(Unit::Px, 127) / &set1(Unit::Px, 127);
}

/// C11: a single-unit set converts to a unit exactly as `Unit::scale_to`
/// says (so the ratio table proved in unit.rs carries over), a unitless set
/// converts like `Unit::None`, compound sets never convert to a plain unit.
fn scale_single(from: Unit, to: Unit) {
    let a = UnitSet::from(from.clone());
    assert!(a.scale_to_unit(&to) == from.scale_to(&to), "single unit: delegates to Unit::scale_to");
    assert!(a.scale_to(&UnitSet::from(to.clone())) == from.scale_to(&to), "scale_to(single) agrees");
}
#[kani::proof]
#[kani::unwind(4)]
fn c11_unitset_scale_to_unit_single_in_cm() {
    scale_single(Unit::In, Unit::Cm);
}
#[kani::proof]
#[kani::unwind(4)]
fn c11_unitset_scale_to_unit_single_px_deg() {
    scale_single(Unit::Px, Unit::Deg);
}
#[kani::proof]
#[kani::unwind(4)]
fn c11_unitset_scale_to_unit_single_ms_s() {
    scale_single(Unit::Ms, Unit::S);
}
#[kani::proof]
#[kani::unwind(4)]
fn c11_unitset_scale_to_unit_compound() {
    let a = set2(Unit::Px, Unit::In, 3);
    assert!(a.scale_to_unit(&Unit::Px).is_none(), "compound unit never converts to a plain unit");
    let sq = UnitSet { units: vec![(Unit::Px, 2)] };
    assert!(sq.scale_to_unit(&Unit::Px).is_none(), "px^2 does not convert to px");
    assert!(UnitSet::scalar().scale_to_unit(&Unit::Px) == Unit::None.scale_to(&Unit::Px));
}
/// C11: a plain unit never converts to a power of a unit (1in is not a
/// number of px^2, nor of px^-1): `scale_to` takes the single-unit shortcut
/// only when the target's exponent is 1.
#[kani::proof]
#[kani::unwind(6)]
fn c11_unitset_scale_to_power_of_unit_is_none() {
    let a = UnitSet::from(Unit::In);
    let sq = UnitSet { units: vec![(Unit::Px, 2)] };
    assert!(a.scale_to(&sq).is_none(), "in does not convert to px^2");
    let inv = UnitSet { units: vec![(Unit::Px, -1)] };
    assert!(a.scale_to(&inv).is_none(), "in does not convert to px^-1");
}
// K-snippet: the head of UnitSet::scale_to (which branch is taken), with the
// compound branch — `quote.dimension()` builds a BTreeMap, out of CBMC's
// reach — cut off and replaced by the marker `Some(-1.0)`.
//@range file=rsass/src/value/unitset.rs impl="impl UnitSet" fn=scale_to until="let quote ="
//@  header: fn snippet_scale_to_head(this: &UnitSet, other: &UnitSet) -> Option<f64>
//@  subst: self => this
//@  tail: Some(-1.0) }
//@end

/// C11: the single-unit shortcut of `scale_to` is taken exactly when the
/// target is ONE unit with exponent 1 (1in is not a number of px^2, nor of
/// px^-1: those go to the general branch, which compares dimensions).
#[kani::proof]
#[kani::unwind(6)]
fn c11_unitset_scale_to_shortcut_needs_exponent_one() {
    let a = UnitSet::from(Unit::In);
    let p: i8 = kani::any();
    kani::assume(p != 0);
    let target = UnitSet { units: vec![(Unit::Px, p)] };
    let r = snippet_scale_to_head(&a, &target);
    if p == 1 {
        assert!(r == Unit::In.scale_to(&Unit::Px), "in -> px: the single-unit conversion");
    } else {
        assert!(r == Some(-1.0), "in -> px^p (p != 1) is not the single-unit conversion");
    }
    let two = UnitSet { units: vec![(Unit::Px, 1), (Unit::S, 1)] };
    assert!(snippet_scale_to_head(&a, &two) == Some(-1.0), "a compound target goes to the general branch");
    assert!(snippet_scale_to_head(&a, &UnitSet::scalar()) == Unit::In.scale_to(&Unit::None), "a unitless target");
}
/// C11: `is_none` is true exactly for the unitless set.
#[kani::proof]
#[kani::unwind(4)]
fn c11_unitset_is_none() {
    assert!(UnitSet::scalar().is_none());
    assert!(UnitSet::from(Unit::None).is_none());
    assert!(!set1(Unit::Px, 3).is_none());
    assert!(!set2(Unit::Px, Unit::Deg, 3).is_none());
    assert!(!UnitSet::from(Unit::Percent).is_none());
}

/// C11 "cancel convertible units": simplify() merges units that convert into
/// each other (px and in), keeping the total exponent of the dimension ...
#[kani::proof]
#[kani::unwind(4)]
fn c11_unitset_simplify_merges_convertible() {
    let a = set2(Unit::Px, Unit::In, 3);
    let total = i32::from(a.units[0].1) + i32::from(a.units[1].1);
    let mut s = a.clone();
    let _factor = s.simplify();
    assert!(well_formed(&s), "simplify: no zero exponents, no duplicates");
    assert!(s.units.len() <= 1, "convertible units are merged");
    assert!(exp_of(&s, &Unit::Px) + exp_of(&s, &Unit::In) == total, "simplify keeps the dimension's total exponent");
}
/// ... and leaves units without a fixed ratio alone.
#[kani::proof]
#[kani::unwind(4)]
fn c11_unitset_simplify_keeps_unrelated() {
    let a = set2(Unit::Px, Unit::Deg, 3);
    let mut s = a.clone();
    let _factor = s.simplify();
    assert!(s == a, "simplify leaves non-convertible units alone");
}

#[kani::proof]
#[kani::unwind(4)]
fn cover_unitset() {
    let a = set1(Unit::Px, 60);
    let b = set1(Unit::Px, 60);
    let r = &a / &b;
    kani::cover!(r.units.is_empty(), "full cancellation reachable");
    kani::cover!(r.units.len() == 1);
}

// ---- C11: the GENERAL branch of UnitSet::scale_to (compound units), the
// complete body extracted unchanged into a module of stand-ins: the quotient
// `self / other` is formed by a stand-in `Div` that just lists self's units
// with their exponents and other's with negated exponents (so WHICH is
// divided by which is visible in the result) and subtracts a dimension count;
// `scale_factor()` gives a stand-in number whose `powi` is exact for the
// exponents used (the real f64::powi is an intrinsic CBMC over-approximates).
// Checked: the factor is the product of the scale factors of SELF's units
// over those of OTHER's, and different dimensions give None. ----
pub(crate) mod general_branch {
    #[derive(Clone, Copy, PartialEq, Debug)]
    pub enum Unit {
        None,
        /// scale factor 96 (as `in` to `px`)
        Big,
        /// scale factor 1
        Base,
    }
    pub struct F(f64);
    impl F {
        pub fn powi(self, p: i32) -> f64 {
            match p {
                0 => 1.0,
                1 => self.0,
                2 => self.0 * self.0,
                -1 => 1.0 / self.0,
                -2 => 1.0 / (self.0 * self.0),
                _ => f64::NAN,
            }
        }
    }
    impl Unit {
        pub fn scale_factor(&self) -> F {
            F(if *self == Unit::Big { 96.0 } else { 1.0 })
        }
    }
    #[derive(Clone, PartialEq, Debug)]
    pub struct UnitSet {
        pub units: Vec<(Unit, i8)>,
        /// stand-in for the dimension vector: a count
        pub dim: i8,
    }
    impl UnitSet {
        pub fn is_none(&self) -> bool {
            self.units.is_empty()
        }
        pub fn dimension(&self) -> Vec<(u8, i8)> {
            if self.dim == 0 { vec![] } else { vec![(0, self.dim)] }
        }
        /// marker results: the shortcut branches are checked on the real
        /// types above
        pub fn scale_to_unit(&self, other: &Unit) -> Option<f64> {
            Some(if *other == Unit::None { -2.0 } else { -1.0 })
        }
//@range file=rsass/src/value/unitset.rs impl="impl UnitSet" fn=scale_to
//@  header: pub fn scale_to(&self, other: &Self) -> Option<f64>
//@end
    }
    impl core::ops::Div for &UnitSet {
        type Output = UnitSet;
        fn div(self, rhs: Self) -> UnitSet {
            let mut units = self.units.clone();
            for (u, p) in &rhs.units {
                units.push((*u, -*p));
            }
            UnitSet { units, dim: self.dim - rhs.dim }
        }
    }
}
/// C11: converting between compound units multiplies by the scale factors
/// of the SOURCE's units and divides by those of the TARGET's (1 big*base is
/// 96 base^2, not 1/96), and units of different dimension do not convert.
#[kani::proof]
#[kani::unwind(6)]
fn c11_unitset_scale_to_general_branch_divides_self_by_other() {
    use general_branch::{Unit as U, UnitSet as S};
    let from = S { units: vec![(U::Big, 1), (U::Base, 1)], dim: 2 };
    let to = S { units: vec![(U::Base, 2)], dim: 2 };
    assert!(from.scale_to(&to) == Some(96.0), "big*base -> base^2: factor 96");
    assert!(to.scale_to(&from) == Some(1.0 / 96.0), "base^2 -> big*base: factor 1/96");
    let other_dim = S { units: vec![(U::Base, 2)], dim: 1 };
    assert!(from.scale_to(&other_dim).is_none(), "different dimensions do not convert");
    // the shortcut branches are still taken for a single-unit / unitless target
    assert!(from.scale_to(&S { units: vec![(U::Base, 1)], dim: 1 }) == Some(-1.0));
    assert!(from.scale_to(&S { units: vec![], dim: 0 }) == Some(-2.0));
}
