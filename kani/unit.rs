//! Contracts and proof harnesses for rsass/src/value/unit.rs
//! Unit U-unit-table (C11): `Unit::scale_to` against the fixed ratios of
//! CSS Values and Units (https://www.w3.org/TR/css-values-4/):
//!   1in = 2.54cm = 25.4mm = 101.6Q = 72pt = 6pc = 96px
//!   1turn = 360deg = 400grad = 2*pi rad
//!   1s = 1000ms      1kHz = 1000Hz      1dppx = 96dpi, 1dpcm = 2.54dpi
//! The table below is the oracle; it is written from the standard, not from
//! `scale_factor`.  One harness per *target* unit, one assertion per source
//! unit, so a failing check names the exact ordered pair.  `Unit::None`
//! (unitless) is left out: "a unitless operand takes the other operand's
//! unit" is decided before `scale_to` is consulted (see numeric.rs/operator.rs).
use super::*;

/// CSS class of a unit whose members have fixed ratios, with the size of one
/// such unit expressed in a canonical unit of the class as NUM/DEN
/// (exact small integers, except rad which carries pi).
#[derive(Clone, Copy, PartialEq)]
pub(crate) enum Class {
    Length,
    Angle,
    Time,
    Freq,
    Res,
    /// no fixed ratio to any *other* unit
    Alone,
}
pub(crate) fn spec(u: &Unit) -> (Class, f64, f64) {
    use Class::*;
    match u {
        // canonical: 1/1000 mm  -> all integers
        Unit::Cm => (Length, 10_000., 1.),
        Unit::Mm => (Length, 1_000., 1.),
        Unit::Q => (Length, 250., 1.),
        Unit::In => (Length, 25_400., 1.),
        Unit::Pt => (Length, 25_400., 72.),
        Unit::Pc => (Length, 25_400., 6.),
        Unit::Px => (Length, 25_400., 96.),
        // canonical: turn
        Unit::Turn => (Angle, 1., 1.),
        Unit::Deg => (Angle, 1., 360.),
        Unit::Grad => (Angle, 1., 400.),
        Unit::Rad => (Angle, 1., 2. * std::f64::consts::PI),
        Unit::S => (Time, 1000., 1.),
        Unit::Ms => (Time, 1., 1.),
        Unit::Khz => (Freq, 1000., 1.),
        Unit::Hz => (Freq, 1., 1.),
        // canonical: 1/100 dpi
        Unit::Dpi => (Res, 100., 1.),
        Unit::Dpcm => (Res, 254., 1.),
        Unit::Dppx => (Res, 9600., 1.),
        _ => (Alone, 1., 1.),
    }
}
/// The ratio CSS fixes between two different units, if any.
pub(crate) fn css_ratio(from: &Unit, to: &Unit) -> Option<f64> {
    let (cf, nf, df) = spec(from);
    let (ct, nt, dt) = spec(to);
    if cf != Class::Alone && cf == ct {
        // from = nf/df canonical, to = nt/dt canonical => from/to = nf*dt/(df*nt)
        Some((nf * dt) / (df * nt))
    } else {
        None
    }
}

/// The C11 obligation for one ordered pair.
fn pair_ok(from: &Unit, to: &Unit) -> bool {
    let got = from.scale_to(to);
    if from == to {
        return got == Some(1.);
    }
    match (css_ratio(from, to), got) {
        (Some(want), Some(f)) => (f - want).abs() <= want * 1e-14,
        // "any other pair of different known units is an error"
        (None, None) => true,
        _ => false,
    }
}

/// All 29 known units, by index (used by other harness modules for a
/// symbolic unit).
pub(crate) fn known_unit(i: u8) -> Unit {
    match i % 29 {
        0 => Unit::Em,
        1 => Unit::Ex,
        2 => Unit::Ch,
        3 => Unit::Rem,
        4 => Unit::Vw,
        5 => Unit::Vh,
        6 => Unit::Vmin,
        7 => Unit::Vmax,
        8 => Unit::Cm,
        9 => Unit::Mm,
        10 => Unit::Q,
        11 => Unit::In,
        12 => Unit::Pt,
        13 => Unit::Pc,
        14 => Unit::Px,
        15 => Unit::Deg,
        16 => Unit::Grad,
        17 => Unit::Rad,
        18 => Unit::Turn,
        19 => Unit::S,
        20 => Unit::Ms,
        21 => Unit::Hz,
        22 => Unit::Khz,
        23 => Unit::Dpi,
        24 => Unit::Dpcm,
        25 => Unit::Dppx,
        26 => Unit::Percent,
        27 => Unit::Fr,
        _ => Unit::None,
    }
}

macro_rules! target {
    ($name:ident, $to:ident) => {
        #[kani::proof]
        fn $name() {
            let to = Unit::$to;
            // one path per source unit, so that EVERY failing ordered pair is
            // reported by name (an `assert!` failure would otherwise mask the
            // assertions after it)
            let src: u8 = kani::any();
            macro_rules! from {
                ($f:ident) => {
                    assert!(
                        pair_ok(&Unit::$f, &to),
                        concat!("scale_to ", stringify!($f), "->", stringify!($to))
                    )
                };
            }
            match src {
                0 => from!(Em),
                1 => from!(Ex),
                2 => from!(Ch),
                3 => from!(Rem),
                4 => from!(Vw),
                5 => from!(Vh),
                6 => from!(Vmin),
                7 => from!(Vmax),
                8 => from!(Cm),
                9 => from!(Mm),
                10 => from!(Q),
                11 => from!(In),
                12 => from!(Pt),
                13 => from!(Pc),
                14 => from!(Px),
                15 => from!(Deg),
                16 => from!(Grad),
                17 => from!(Rad),
                18 => from!(Turn),
                19 => from!(S),
                20 => from!(Ms),
                21 => from!(Hz),
                22 => from!(Khz),
                23 => from!(Dpi),
                24 => from!(Dpcm),
                25 => from!(Dppx),
                26 => from!(Percent),
                27 => from!(Fr),
                _ => (),
            }
        }
    };
}
target!(c11_scale_to_em, Em);
target!(c11_scale_to_ex, Ex);
target!(c11_scale_to_ch, Ch);
target!(c11_scale_to_rem, Rem);
target!(c11_scale_to_vw, Vw);
target!(c11_scale_to_vh, Vh);
target!(c11_scale_to_vmin, Vmin);
target!(c11_scale_to_vmax, Vmax);
target!(c11_scale_to_cm, Cm);
target!(c11_scale_to_mm, Mm);
target!(c11_scale_to_q, Q);
target!(c11_scale_to_in, In);
target!(c11_scale_to_pt, Pt);
target!(c11_scale_to_pc, Pc);
target!(c11_scale_to_px, Px);
target!(c11_scale_to_deg, Deg);
target!(c11_scale_to_grad, Grad);
target!(c11_scale_to_rad, Rad);
target!(c11_scale_to_turn, Turn);
target!(c11_scale_to_s, S);
target!(c11_scale_to_ms, Ms);
target!(c11_scale_to_hz, Hz);
target!(c11_scale_to_khz, Khz);
target!(c11_scale_to_dpi, Dpi);
target!(c11_scale_to_dpcm, Dpcm);
target!(c11_scale_to_dppx, Dppx);
target!(c11_scale_to_percent, Percent);
target!(c11_scale_to_fr, Fr);

/// Unknown (named) units convert only to themselves.
#[kani::proof]
#[kani::unwind(4)]
fn c11_scale_to_unknown() {
    let x = Unit::Unknown(String::from("x"));
    let y = Unit::Unknown(String::from("y"));
    let k = known_unit(kani::any());
    assert!(x.scale_to(&x) == Some(1.), "unknown unit converts to itself");
    assert!(x.scale_to(&y).is_none(), "two different unknown units do not convert");
    assert!(x.scale_to(&k).is_none() && k.scale_to(&x).is_none(), "unknown never converts to a known unit");
}
