//! K-snippet unit U-controlflow, part 2 (C17): `@each` destructuring
//! (`Scope::define_multi`) and the `@if` arm of function bodies
//! (`ScopeRef::eval_body`) — statement ranges extracted from /repo on every
//! run (tools/extract.py).  `self.define(name, value)` is replaced by a
//! binder that records the bindings in order; the recursive evaluation of a
//! branch by a marker (listed substitutions).
use super::*;
use std::cell::RefCell;

/// Records `define(name, value)` calls in order: (first byte of the name,
/// tag of the value).
pub(crate) struct Binder {
    log: RefCell<Vec<(u8, u8)>>,
}
/// The range is instantiated at a cheap element type (listed substitutions
/// `value.iter_items()` -> `value.items()`, `Value::Null` -> `E::NULL`):
/// a list value is a `Vec<E>`, an element an `E(u8)`.  With css::Value
/// elements CBMC needs > 8 GB per harness (drop glue of nested values).
#[derive(Clone, Copy)]
struct E(u8);
impl E {
    const NULL: E = E(0);
}
struct ListVal(Vec<E>);
impl ListVal {
    fn items(self) -> Vec<E> {
        self.0
    }
}
trait Tagged {
    fn tag(&self) -> u8;
}
impl Tagged for E {
    fn tag(&self) -> u8 {
        self.0
    }
}
impl Tagged for ListVal {
    fn tag(&self) -> u8 {
        200 + self.0.len() as u8
    }
}
impl Binder {
    fn define<T: Tagged>(&self, name: Name, value: T) -> Result<(), ()> {
        self.log.borrow_mut().push((name.as_ref().as_bytes()[0], value.tag()));
        Ok(())
    }
}

//@range file=rsass/src/variablescope.rs impl="impl Scope" fn=define_multi
//@  header: fn snippet_define_multi(this: &Binder, names: &[Name], value: ListVal) -> Result<(), ()>
//@  subst: self => this
//@  subst: value.iter_items() => value.items()
//@  subst: Value::Null => E::NULL
//@end

fn names3() -> [Name; 3] {
    [Name::from_static("a"), Name::from_static("b"), Name::from_static("c")]
}
/// C17: @each destructures a list element into several variables and binds
/// missing positions to null — every missing position, not just the first.
#[kani::proof]
#[kani::unwind(6)]
fn c17_each_binds_missing_positions_to_null() {
    let b = Binder { log: RefCell::new(Vec::new()) };
    // @each $a, $b, $c in ((x),): one value for three variables
    let r = snippet_define_multi(&b, &names3(), ListVal(vec![E(7)]));
    assert!(r.is_ok());
    let log = b.log.borrow();
    assert!(log.len() == 3, "all three variables are bound");
    assert!(log[0] == (b'a', 7) && log[1] == (b'b', 0) && log[2] == (b'c', 0), "first from the element, every missing position null");
}
#[kani::proof]
#[kani::unwind(6)]
fn c17_each_destructures_in_order() {
    let b = Binder { log: RefCell::new(Vec::new()) };
    let r = snippet_define_multi(&b, &names3()[..2], ListVal(vec![E(7), E(8), E(9)]));
    assert!(r.is_ok());
    let log = b.log.borrow();
    assert!(log.len() == 2 && log[0] == (b'a', 7) && log[1] == (b'b', 8), "positions bind in order (excess values are ignored)");
}
#[kani::proof]
#[kani::unwind(6)]
fn c17_each_single_variable_gets_whole_element() {
    let b = Binder { log: RefCell::new(Vec::new()) };
    let r = snippet_define_multi(&b, &names3()[..1], ListVal(vec![E(7), E(8)]));
    assert!(r.is_ok());
    let log = b.log.borrow();
    assert!(log.len() == 1 && log[0] == (b'a', 202), "a single variable gets the whole element");
}

//@range file=rsass/src/variablescope.rs impl="impl ScopeRef" fn=eval_body from="if cond.evaluate(self.clone())?" until="\n                }\n                Item::Each"
//@  header: fn snippet_fn_if_branch(cond_value: Value) -> Result<Option<u8>, ()>
//@  subst: cond.evaluate(self.clone())? => cond_value
//@  subst: self.clone().eval_body(do_if)? => Some(10u8)
//@  subst: self.clone().eval_body(do_else)? => Some(20u8)
//@  head: Ok(
//@  tail: )
//@end

fn cond_value(tag: u8) -> Value {
    match tag {
        0 => Value::True,
        1 => Value::False,
        2 => Value::Null,
        3 => Value::scalar(0),
        4 => Value::List(vec![], None, false),
        _ => Value::Literal(CssString::new(String::new(), crate::value::Quotes::None)),
    }
}
fn truthy(tag: u8) -> bool {
    tag != 1 && tag != 2
}
/// C17: @if inside a function body runs the first branch exactly when the
/// condition is truthy.
macro_rules! fn_if_case {
    ($name:ident, $tag:expr) => {
        #[kani::proof]
        #[kani::unwind(4)]
        fn $name() {
            let t = $tag;
            let r = snippet_fn_if_branch(cond_value(t));
            let want = if truthy(t) { 10u8 } else { 20u8 };
            assert!(r == Ok(Some(want)), "@if in a function runs the first branch exactly when the condition is truthy");
        }
    };
}
fn_if_case!(c17_fn_if_true, 0);
fn_if_case!(c17_fn_if_false, 1);
fn_if_case!(c17_fn_if_null, 2);
fn_if_case!(c17_fn_if_zero, 3);
fn_if_case!(c17_fn_if_empty_list, 4);
fn_if_case!(c17_fn_if_empty_string, 5);

#[kani::proof]
fn cover_scopefns() {
    let t: u8 = kani::any();
    kani::cover!(t == 3);
}
