//! K-snippet unit U-controlflow, part 2 (C17): `@each` destructuring
//! (`Scope::define_multi`) and the `@if` arm of function bodies
//! (`ScopeRef::eval_body`) — statement ranges extracted from /repo on every
//! run (tools/extract.py).  `self.define(name, value)` is replaced by a
//! binder that records the bindings in order; the recursive evaluation of a
//! branch by a marker (listed substitutions).
use super::*;
use std::cell::RefCell;

/// Records `define(name, value)` calls in order: (first byte of the name,
/// tag of the value).
pub(crate) struct Binder {
    log: RefCell<Vec<(u8, u8)>>,
}
/// The range is instantiated at a cheap element type (listed substitutions
/// `value.iter_items()` -> `value.items()`, `Value::Null` -> `E::NULL`):
/// a list value is a `Vec<E>`, an element an `E(u8)`.  With css::Value
/// elements CBMC needs > 8 GB per harness (drop glue of nested values).
#[derive(Clone, Copy)]
struct E(u8);
impl E {
    const NULL: E = E(0);
}
struct ListVal(Vec<E>);
impl ListVal {
    fn items(self) -> Vec<E> {
        self.0
    }
}
trait Tagged {
    fn tag(&self) -> u8;
}
impl Tagged for E {
    fn tag(&self) -> u8 {
        self.0
    }
}
impl Tagged for ListVal {
    fn tag(&self) -> u8 {
        200 + self.0.len() as u8
    }
}
impl Binder {
    fn define<T: Tagged>(&self, name: Name, value: T) -> Result<(), ()> {
        self.log.borrow_mut().push((name.as_ref().as_bytes()[0], value.tag()));
        Ok(())
    }
}

//@range file=rsass/src/variablescope.rs impl="impl Scope" fn=define_multi
//@  header: fn snippet_define_multi(this: &Binder, names: &[Name], value: ListVal) -> Result<(), ()>
//@  subst: self => this
//@  subst: value.iter_items() => value.items()
//@  subst: Value::Null => E::NULL
//@end

fn names3() -> [Name; 3] {
    [Name::from_static("a"), Name::from_static("b"), Name::from_static("c")]
}
/// C17: @each destructures a list element into several variables and binds
/// missing positions to null — every missing position, not just the first.
#[kani::proof]
#[kani::unwind(6)]
fn c17_each_binds_missing_positions_to_null() {
    let b = Binder { log: RefCell::new(Vec::new()) };
    // @each $a, $b, $c in ((x),): one value for three variables
    let r = snippet_define_multi(&b, &names3(), ListVal(vec![E(7)]));
    assert!(r.is_ok());
    let log = b.log.borrow();
    assert!(log.len() == 3, "all three variables are bound");
    assert!(log[0] == (b'a', 7) && log[1] == (b'b', 0) && log[2] == (b'c', 0), "first from the element, every missing position null");
}
#[kani::proof]
#[kani::unwind(6)]
fn c17_each_destructures_in_order() {
    let b = Binder { log: RefCell::new(Vec::new()) };
    let r = snippet_define_multi(&b, &names3()[..2], ListVal(vec![E(7), E(8), E(9)]));
    assert!(r.is_ok());
    let log = b.log.borrow();
    assert!(log.len() == 2 && log[0] == (b'a', 7) && log[1] == (b'b', 8), "positions bind in order (excess values are ignored)");
}
#[kani::proof]
#[kani::unwind(6)]
fn c17_each_single_variable_gets_whole_element() {
    let b = Binder { log: RefCell::new(Vec::new()) };
    let r = snippet_define_multi(&b, &names3()[..1], ListVal(vec![E(7), E(8)]));
    assert!(r.is_ok());
    let log = b.log.borrow();
    assert!(log.len() == 1 && log[0] == (b'a', 202), "a single variable gets the whole element");
}

//@range file=rsass/src/variablescope.rs impl="impl ScopeRef" fn=eval_body from="if cond.evaluate(self.clone())?" until="\n                }\n                Item::Each"
//@  header: fn snippet_fn_if_branch(cond_value: Value) -> Result<Option<u8>, ()>
//@  subst: cond.evaluate(self.clone())? => cond_value
//@  subst: self.clone().eval_body(do_if)? => Some(10u8)
//@  subst: self.clone().eval_body(do_else)? => Some(20u8)
//@  head: Ok(
//@  tail: )
//@end

fn cond_value(tag: u8) -> Value {
    match tag {
        0 => Value::True,
        1 => Value::False,
        2 => Value::Null,
        3 => Value::scalar(0),
        4 => Value::List(vec![], None, false),
        _ => Value::Literal(CssString::new(String::new(), crate::value::Quotes::None)),
    }
}
fn truthy(tag: u8) -> bool {
    tag != 1 && tag != 2
}
/// C17: @if inside a function body runs the first branch exactly when the
/// condition is truthy.
macro_rules! fn_if_case {
    ($name:ident, $tag:expr) => {
        #[kani::proof]
        #[kani::unwind(4)]
        fn $name() {
            let t = $tag;
            let r = snippet_fn_if_branch(cond_value(t));
            let want = if truthy(t) { 10u8 } else { 20u8 };
            assert!(r == Ok(Some(want)), "@if in a function runs the first branch exactly when the condition is truthy");
        }
    };
}
fn_if_case!(c17_fn_if_true, 0);
fn_if_case!(c17_fn_if_false, 1);
fn_if_case!(c17_fn_if_null, 2);
fn_if_case!(c17_fn_if_zero, 3);
fn_if_case!(c17_fn_if_empty_list, 4);
fn_if_case!(c17_fn_if_empty_string, 5);

// ---- C16: `@each` loop variables are local to the loop: what
// store_local_values saves and restore_local_values puts back.  The three
// method bodies (store_local_values, restore_local_values and the chain
// lookup get_local_or_none they may be confused with) are extracted WITHOUT
// textual substitution as methods of a stand-in scope whose `variables`
// field is a four-slot table behind a RefCell instead of a
// Mutex<BTreeMap<Name, Value>>, with names and values instantiated at u8
// (listed abstraction: CBMC does not finish on BTreeMap). ----
pub(crate) mod saverestore {
    use std::cell::{RefCell, RefMut};
    pub type Name = u8;
    pub type Value = u8;
    pub struct VarMap(pub [Option<u8>; 4]);
    impl VarMap {
        pub fn get(&self, k: &u8) -> Option<&u8> {
            self.0[(*k & 3) as usize].as_ref()
        }
        pub fn insert(&mut self, k: u8, v: u8) -> Option<u8> {
            self.0[(k & 3) as usize].replace(v)
        }
        pub fn remove(&mut self, k: &u8) -> Option<u8> {
            self.0[(*k & 3) as usize].take()
        }
    }
    pub struct Lock(pub RefCell<VarMap>);
    impl Lock {
        pub fn lock(&self) -> Result<RefMut<'_, VarMap>, ()> {
            Ok(self.0.borrow_mut())
        }
    }
    pub struct Scope {
        pub variables: Lock,
        pub parent: Option<&'static Scope>,
    }
    impl Scope {
        pub fn with(vars: [Option<u8>; 4], parent: Option<&'static Scope>) -> Scope {
            Scope { variables: Lock(RefCell::new(VarMap(vars))), parent }
        }
        pub fn own(&self, k: u8) -> Option<u8> {
            self.variables.0.borrow().0[(k & 3) as usize]
        }
//@range file=rsass/src/variablescope.rs impl="impl Scope" fn=store_local_values
//@  header: pub fn store_local_values(&self, names: &[Name]) -> Vec<(Name, Option<Value>)>
//@end
//@range file=rsass/src/variablescope.rs impl="impl Scope" fn=restore_local_values
//@  header: pub fn restore_local_values(&self, data: Vec<(Name, Option<Value>)>)
//@end
//@range file=rsass/src/variablescope.rs impl="impl Scope" fn=get_local_or_none
//@  header: pub fn get_local_or_none(&self, name: &Name) -> Option<Value>
//@end
    }
}

/// C16: `@each` variables are local to the loop.  store_local_values saves
/// the loop scope's OWN entries only (a variable of an enclosing scope is
/// saved as "not defined here"), and restore_local_values puts back exactly
/// that: after the loop the scope's own table is what it was, and a name it
/// did not define resolves to the enclosing scope's (possibly changed)
/// variable again.
#[kani::proof]
#[kani::unwind(6)]
fn c16_each_save_and_restore_touch_only_the_own_scope() {
    use saverestore::Scope;
    let (own1, outer2, outer2_later): (u8, u8, u8) = (kani::any(), kani::any(), kani::any());
    let parent: &'static Scope = Box::leak(Box::new(Scope::with([None, None, Some(outer2), None], None)));
    let scope = Scope::with([None, Some(own1), None, None], Some(parent));
    let names: [u8; 3] = [1, 2, 3];
    let saved = scope.store_local_values(&names);
    assert!(saved.len() == 3);
    assert!(saved[0] == (1, Some(own1)), "the scope's own variable is saved with its value");
    assert!(saved[1] == (2, None), "a variable of an ENCLOSING scope is not copied: it is saved as not defined here");
    assert!(saved[2] == (3, None), "an undefined variable is saved as undefined");
    // the loop binds all three in the own scope (define inserts there)
    let _ = scope.variables.lock().unwrap().insert(1, 101);
    let _ = scope.variables.lock().unwrap().insert(2, 102);
    let _ = scope.variables.lock().unwrap().insert(3, 103);
    // ... and meanwhile the enclosing scope's variable is changed (!global)
    let _ = parent.variables.lock().unwrap().insert(2, outer2_later);
    scope.restore_local_values(saved);
    assert!(scope.own(1) == Some(own1), "the own variable has its old value again");
    assert!(scope.own(2) == None && scope.own(3) == None, "loop variables that were not defined in this scope are removed from it");
    assert!(scope.get_local_or_none(&2) == Some(outer2_later), "the name resolves to the enclosing scope's current variable again");
    assert!(scope.get_local_or_none(&3) == None);
    assert!(parent.own(2) == Some(outer2_later) && parent.own(1) == None && parent.own(3) == None, "the enclosing scope is not touched");
}

#[kani::proof]
fn cover_scopefns() {
    let t: u8 = kani::any();
    kani::cover!(t == 3);
}

// ---- C16: the flag logic of variable assignment (`Scope::set_variable`,
// the part after the `module.name` case), extracted each run.  The scope's
// own state is replaced by a probe (listed substitutions): `get_or_none`
// answers what the harness chose, `define_global` and the insertion into the
// local map record where the value was written. ----
use std::cell::Cell;

#[derive(Clone, Copy, PartialEq, Eq, Debug)]
enum Wrote {
    Nothing,
    Local,
    Global,
}
struct VarProbe {
    /// what a lookup of the name finds: 0 = undefined, 1 = null, 2 = a value,
    /// 3 = the empty list `()` (defined, and not null)
    existing: u8,
    wrote: Cell<Wrote>,
    writes: Cell<u8>,
}
impl VarProbe {
    fn lookup(&self) -> Option<Value> {
        match self.existing {
            0 => None,
            1 => Some(Value::Null),
            3 => Some(Value::List(vec![], None, false)),
            _ => Some(Value::True),
        }
    }
    fn global(&self, _name: Name, _val: Value) {
        self.wrote.set(Wrote::Global);
        self.writes.set(self.writes.get() + 1);
    }
    fn local(&self, _name: Name, _val: Value) {
        self.wrote.set(Wrote::Local);
        self.writes.set(self.writes.get() + 1);
    }
}

//@range file=rsass/src/variablescope.rs impl="impl Scope" fn=set_variable from="if default"
//@  header: fn snippet_set_variable(probe: &VarProbe, name: Name, val: Value, default: bool, global: bool) -> Result<(), ()>
//@  subst: self.get_or_none(&name) => probe.lookup()
//@  subst: self.define_global(name, val) => probe.global(name, val)
//@  subst: self.variables.lock().unwrap().insert(name, val) => probe.local(name, val)
//@end

/// C16: `!default` assigns only when the variable is undefined or null;
/// `!global` always writes the global; without `!global` the write is local;
/// exactly one write, or none.  One harness per combination (a symbolic
/// choice of the existing value's kind makes CBMC explode): all 12.
fn assignment_flags(existing: u8, default: bool, global: bool) {
    let p = VarProbe { existing, wrote: Cell::new(Wrote::Nothing), writes: Cell::new(0) };
    let r = snippet_set_variable(&p, Name::from_static("x"), Value::False, default, global);
    assert!(r.is_ok());
    if default && existing >= 2 {
        assert!(p.wrote.get() == Wrote::Nothing, "!default does not assign when the variable already has a value");
    } else {
        assert!(p.writes.get() == 1, "the assignment writes exactly once");
        assert!(p.wrote.get() == if global { Wrote::Global } else { Wrote::Local }, "!global writes the global, otherwise the write is local");
    }
}
macro_rules! flags_case {
    ($name:ident, $e:expr, $d:expr, $g:expr) => {
        #[kani::proof]
        #[kani::unwind(4)]
        fn $name() {
            assignment_flags($e, $d, $g)
        }
    };
}
flags_case!(c16_plain_undefined, 0, false, false);
flags_case!(c16_plain_null, 1, false, false);
flags_case!(c16_plain_defined, 2, false, false);
flags_case!(c16_global_undefined, 0, false, true);
flags_case!(c16_global_null, 1, false, true);
flags_case!(c16_global_defined, 2, false, true);
flags_case!(c16_default_undefined, 0, true, false);
flags_case!(c16_default_null, 1, true, false);
flags_case!(c16_default_defined, 2, true, false);
flags_case!(c16_default_global_undefined, 0, true, true);
flags_case!(c16_default_global_null, 1, true, true);
flags_case!(c16_default_global_defined, 2, true, true);
flags_case!(c16_default_empty_list_is_a_value, 3, true, false);

/// C16, first clause: "an assignment without flags updates the variable in
/// the innermost enclosing scope that already declares it".  KNOWN FINDING:
/// `set_variable` never consults the enclosing scopes for a plain assignment
/// — it always inserts into the current scope's own map, so
/// `a { $x: 1; b { $x: 2; } c: $x }` gives `c: 1` (Sass: 2).
#[kani::proof]
#[kani::unwind(4)]
fn c16_assignment_updates_innermost_declaring_scope() {
    // the variable is declared (with a value) in an enclosing local scope, not in the current one
    let p = VarProbe { existing: 2, wrote: Cell::new(Wrote::Nothing), writes: Cell::new(0) };
    let r = snippet_set_variable(&p, Name::from_static("x"), Value::False, false, false);
    assert!(r.is_ok());
    // the only writes the range can perform are `Local` (the current scope's own map) and `Global`
    assert!(p.wrote.get() != Wrote::Local, "a plain assignment to a variable declared in an enclosing scope must update it there, not create a new local");
}

// ---- C18 / C17: `@while` inside a function body (`ScopeRef::eval_body`):
// a `@return` reached in the loop body ends the function at once — the
// condition is not evaluated again.  The arm is extracted each run; the
// evaluation of the condition and of the body are probes (listed
// substitutions). ----
struct FnLoop {
    /// the body returns a value in this (0-based) iteration; 255 = never
    returns_at: u8,
    /// the condition is truthy for this many evaluations
    truthy_for: u8,
    asked: Cell<u8>,
    ran: Cell<u8>,
}
impl FnLoop {
    fn next_cond(&self) -> Result<Value, ()> {
        let i = self.asked.get();
        self.asked.set(i + 1);
        Ok(if i < self.truthy_for { Value::True } else { Value::Null })
    }
    fn run_body(&self) -> Result<Option<u8>, ()> {
        let i = self.ran.get();
        self.ran.set(i + 1);
        Ok(if i == self.returns_at { Some(42) } else { None })
    }
}

//@range file=rsass/src/variablescope.rs impl="impl ScopeRef" fn=eval_body after="Item::While(cond, body) => {" until="\n                }\n                Item::Debug"
//@  header: fn snippet_fn_while(probe: &FnLoop) -> Result<Option<u8>, ()>
//@  subst: Self::sub(self.clone()) => ()
//@  subst: cond.evaluate(scope.clone()) => probe.next_cond()
//@  subst: scope.clone().eval_body(body) => probe.run_body()
//@  head: Ok({
//@  tail: })
//@end

/// C18: a function returns the first @return it reaches — inside @while the
/// loop stops there and the condition is not evaluated again.
#[kani::proof]
#[kani::unwind(7)]
fn c18_return_inside_while_stops_at_once() {
    let p = FnLoop { returns_at: 1, truthy_for: 4, asked: Cell::new(0), ran: Cell::new(0) };
    let r = snippet_fn_while(&p);
    assert!(r == Ok(Some(42)), "the value of the first @return reached");
    assert!(p.ran.get() == 2, "the body ran twice (the second time it returned)");
    assert!(p.asked.get() == 2, "the condition is not evaluated again after @return");
}
/// C17: without @return the loop runs while the condition is truthy.
#[kani::proof]
#[kani::unwind(7)]
fn c17_fn_while_runs_while_truthy() {
    let p = FnLoop { returns_at: 255, truthy_for: 3, asked: Cell::new(0), ran: Cell::new(0) };
    let r = snippet_fn_while(&p);
    assert!(r == Ok(None), "no @return reached");
    assert!(p.ran.get() == 3 && p.asked.get() == 4, "once per truthy condition; stops at the first falsey one");
}
