//! Contracts and proof harnesses for rsass/src/value/colors/hsla.rs
//! Units U-color-ctor (C31), U-color-law (C32).
use super::*;

/// `deg_mod` has no precondition: `hsl(math.div(0,0), ..)` passes NaN and
/// that must not panic (C01); the range clause is about finite angles.
pub(crate) fn deg_mod_pre(_v: f64) -> bool {
    true
}
/// C31: for every finite angle the hue is in [0, 360) — half-open, as the
/// property states — and an angle already in range is returned unchanged.
pub(crate) fn deg_mod_post(v: f64, r: &f64) -> bool {
    !v.is_finite() || (0.0 <= *r && *r < 360.0 && (!(0.0 <= v && v < 360.0) || *r == v))
}

pub(crate) fn any_hsla_raw() -> Hsla {
    Hsla {
        hue: kani::any(),
        sat: kani::any(),
        lum: kani::any(),
        alpha: kani::any(),
        hsla_format: kani::any(),
    }
}
/// The invariant the constructors establish for finite inputs.
pub(crate) fn valid(c: &Hsla) -> bool {
    0.0 <= c.hue && c.hue < 360.0 && 0.0 <= c.sat && 0.0 <= c.alpha && c.alpha <= 1.0
}
pub(crate) fn any_hsla_valid() -> Hsla {
    let c = any_hsla_raw();
    kani::assume(valid(&c) && c.sat <= 1.0 && 0.0 <= c.lum && c.lum <= 1.0);
    c
}

/// ASSUMED contract of the one operation inside `deg_mod` that no installed
/// back end models: `f64 % 360.0` (IEEE 754 fmod: exact, result has the sign
/// of the dividend and a magnitude below the divisor).  Exact on [-720, 720],
/// "some value of the right sign and magnitude" beyond.
pub(crate) fn fmod_by_contract(v: f64, t: f64) -> f64 {
    assert!(t == 360.0, "deg_mod divides by a full turn");
    let a = v.abs();
    if !v.is_finite() {
        f64::NAN
    } else if a < 360.0 {
        v
    } else if a < 720.0 {
        if v > 0.0 { v - 360.0 } else { v + 360.0 }
    } else if a == 720.0 {
        if v > 0.0 { 0.0 } else { -0.0 }
    } else {
        let r: f64 = kani::any();
        kani::assume(r.abs() < 360.0 && r.is_sign_negative() == v.is_sign_negative());
        r
    }
}

// The body of the real `deg_mod`, cut out of /repo's current source on every
// run (tools/extract.py); the only substitution is `value % turn` ->
// `fmod_by_contract(value, turn)`.
//@range file=rsass/src/value/colors/hsla.rs fn=deg_mod from="let turn = 360.;"
//@  header: fn deg_mod_extracted(value: f64) -> f64
//@  subst: value % turn => fmod_by_contract(value, turn)
//@end

/// C31: the contract that every call site of `deg_mod` is checked against
/// (`deg_mod_by_contract` below) holds for the real body, for ALL doubles,
/// given only the contract of `%`: hue in [0, 360) for every finite angle,
/// identity on [0, 360), minus / plus one turn on the neighbouring turns, a
/// full turn (and anything that rounds to it) folded to 0, NaN otherwise.
#[kani::proof]
fn c31_deg_mod_contract() {
    let v: f64 = kani::any();
    let r = deg_mod_extracted(v);
    if !v.is_finite() {
        assert!(r.is_nan(), "deg_mod: NaN / infinite angles stay NaN");
    } else {
        assert!(0.0 <= r && r < 360.0, "deg_mod: hue in [0, 360) for every finite angle");
        if 0.0 <= v && v < 360.0 {
            assert!(r == v, "deg_mod: an angle already in range is unchanged");
        } else if 360.0 <= v && v < 720.0 {
            assert!(r == v - 360.0, "deg_mod: one turn off");
        } else if v == 720.0 {
            assert!(r == 0.0, "deg_mod: two turns are 0");
        } else if -360.0 <= v && v < 0.0 {
            let w = v + 360.0;
            assert!(r == if w >= 360.0 { 0.0 } else { w }, "deg_mod: negative angles gain one turn; a result that rounds to a full turn is 0");
        }
    }
}
#[kani::proof]
fn cover_deg_mod_contract() {
    let v: f64 = kani::any();
    let r = deg_mod_extracted(v);
    kani::cover!(v.is_finite() && v < -1000.0 && r > 0.0);
    kani::cover!(v.is_finite() && v > 1000.0 && r > 0.0);
    kani::cover!(v < 0.0 && v > -1e-20 && r == 0.0);
}

/// Contract of `deg_mod`, used at every call site below
/// (`#[kani::stub]`).  CBMC 6.11 does not model `f64 % f64` (measured: it
/// "refutes" `-90.0 % 360.0 == -90.0` and `v % 360 == v` for 0 <= v < 360),
/// so nothing that executes `value % turn` can be decided by Kani, and Verus
/// has no float arithmetic.  The contract is proved for the real body by
/// `c31_deg_mod_contract` above, modulo the assumed contract of `%` itself
/// (`fmod_by_contract`).  It is exact (not an over-approximation) on
/// [-360, 720]; harnesses whose law needs the exact value keep their angles
/// inside that interval.
///   finite v in [0,360)      -> v
///   finite v in [360,720)    -> v - 360   (exact)
///   v == 720                 -> 0
///   finite v in [-360,0)     -> v + 360, folded to 0 when that rounds to 360
///   any other finite v       -> some r with 0 <= r < 360
///   NaN / infinite           -> NaN
pub(crate) fn deg_mod_by_contract(v: f64) -> f64 {
    if !v.is_finite() {
        f64::NAN
    } else if 0.0 <= v && v < 360.0 {
        v
    } else if 360.0 <= v && v < 720.0 {
        v - 360.0
    } else if v == 720.0 {
        // `h + 360` with h just below 360 rounds to exactly two turns
        0.0
    } else if -360.0 <= v && v < 0.0 {
        let r = v + 360.0;
        if r >= 360.0 { 0.0 } else { r }
    } else {
        let r: f64 = kani::any();
        kani::assume(0.0 <= r && r < 360.0);
        r
    }
}

/// C31: Hsla::new reports hue in [0,360), saturation >= 0, alpha in [0,1]
/// for every finite hue and every non-NaN saturation/alpha (infinite and
/// out-of-range values included: they must be clamped).
#[kani::proof]
#[kani::stub(deg_mod, deg_mod_by_contract)]
fn c31_hsla_new_in_range() {
    let (hue, sat, alpha): (f64, f64, f64) = (kani::any(), kani::any(), kani::any());
    kani::assume(hue.is_finite() && !sat.is_nan() && !alpha.is_nan());
    let c = Hsla::new(hue, sat, kani::any(), alpha, kani::any());
    assert!(0.0 <= c.hue() && c.hue() < 360.0, "hue in [0,360)");
    assert!(0.0 <= c.sat(), "saturation >= 0");
    assert!(0.0 <= c.alpha() && c.alpha() <= 1.0, "alpha in [0,1]");
}
/// C31 (statement: lightness of a color created by hsl() is in 0-100%):
/// `Hsla::new` — what hsl()/hsla() call with the given lightness — keeps the
/// lightness in [0, 1].  KNOWN FINDING: it does not (hsl(0, 50%, 120%) has
/// lightness 120%); clamping it breaks the baseline's
/// core_functions::color::hsl::…::out_of_gamut tests, which expect the
/// out-of-range value to pass through.
#[kani::proof]
#[kani::stub(deg_mod, deg_mod_by_contract)]
fn c31_hsla_new_lightness_in_range() {
    let l: f64 = kani::any();
    kani::assume(l.is_finite());
    let c = Hsla::new(0.0, 0.5, l, 1.0, true);
    assert!(0.0 <= c.lum() && c.lum() <= 1.0, "lightness in [0, 100%]");
}
/// C31: in-range channels are stored unchanged.
#[kani::proof]
#[kani::stub(deg_mod, deg_mod_by_contract)]
fn c31_hsla_new_identity_in_range() {
    let (h, s, l, a): (f64, f64, f64, f64) = (kani::any(), kani::any(), kani::any(), kani::any());
    kani::assume(0.0 <= h && h < 360.0 && 0.0 <= s && s <= 1.0 && 0.0 <= l && l <= 1.0 && 0.0 <= a && a <= 1.0);
    let c = Hsla::new(h, s, l, a, kani::any());
    assert!(c.hue() == h && c.sat() == s && c.lum() == l && c.alpha() == a);
}
#[kani::proof]
#[kani::stub(deg_mod, deg_mod_by_contract)]
fn c31_hsla_set_alpha_in_range() {
    let mut c = any_hsla_valid();
    let a: f64 = kani::any();
    kani::assume(!a.is_nan());
    c.set_alpha(a);
    assert!(0.0 <= c.alpha() && c.alpha() <= 1.0);
    assert!(!(0.0 <= a && a <= 1.0) || c.alpha() == a);
}
/// C32: Hsla::invert(1) twice gives back the color: hue +180 +180 = hue
/// (mod 360), lightness 1-(1-l) within 1e-15, saturation/alpha untouched;
/// the result stays a valid color.
#[kani::proof]
#[kani::stub(deg_mod, deg_mod_by_contract)]
fn c32_hsla_invert_involution() {
    let c = any_hsla_valid();
    let once = c.invert(1.0);
    assert!(valid(&once), "invert keeps the invariant");
    assert!(once.sat() == c.sat() && once.alpha() == c.alpha());
    let twice = once.invert(1.0);
    assert!(valid(&twice));
    assert!((twice.hue() - c.hue()).abs() < 1e-9 || (twice.hue() - c.hue()).abs() > 360.0 - 1e-9, "hue restored");
    assert!((twice.lum() - c.lum()).abs() < 1e-15, "lightness restored");
    assert!(twice.sat() == c.sat() && twice.alpha() == c.alpha());
}
/// C32: invert with weight 0 is the identity on lightness/sat/alpha
/// (hue is rotated by 180 as the code does for every weight — asserted
/// only for weight 1 above).
#[kani::proof]
#[kani::stub(deg_mod, deg_mod_by_contract)]
fn c32_hsla_invert_value() {
    let c = any_hsla_valid();
    let i = c.invert(1.0);
    assert!(i.lum() == 1.0 - c.lum());
    let d = (i.hue() - c.hue()).abs();
    assert!((d - 180.0).abs() < 1e-9, "hue differs by 180 degrees");
}

#[kani::proof]
#[kani::stub(deg_mod, deg_mod_by_contract)]
fn cover_hsla() {
    let v: f64 = kani::any();
    kani::cover!(deg_mod_pre(v) && v.is_finite() && v < -720.0);
    kani::cover!(deg_mod_pre(v) && v.is_finite() && v > 720.0);
}

