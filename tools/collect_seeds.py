#!/usr/bin/env python3
"""Copy the confirmed sub-agent seeds into /verif/seeded/<P>_<k>/ (patch.diff,
demonstration, meta.json) and write /verif/seeded/detection.json from the
latest try_seed.py results in /var/tmp/seedruns."""
import json, os, re, shutil, glob
ROOT = os.path.dirname(os.path.dirname(os.path.abspath(__file__)))
out = []
for cf in sorted(glob.glob('/var/tmp/confirm/*.json')):
    c = json.load(open(cf))
    p, k = os.path.basename(cf)[:-5].split('_')
    src = '/tmp/seed/%s-out/%s' % (p, k)
    prop = p[:-1] if p.endswith('b') else p   # second-round seeds are named <property>b
    if not c.get('confirmed') or not os.path.isdir(src):
        continue
    dst = os.path.join(ROOT, 'seeded', '%s_%s' % (p, k))
    os.makedirs(dst, exist_ok=True)
    for f in ('patch.diff', 'demo.sh', 'notes.md'):
        if os.path.exists(os.path.join(src, f)):
            shutil.copy(os.path.join(src, f), os.path.join(dst, f))
    notes = open(os.path.join(src, 'notes.md')).read() if os.path.exists(os.path.join(src, 'notes.md')) else ''
    files = re.findall(r'^\+\+\+ b/(\S+)', open(os.path.join(src, 'patch.diff')).read(), re.M)
    det = None
    rf = '/var/tmp/seedruns/%s_%s.json' % (p, k)
    if os.path.exists(rf):
        for l in open(rf):
            try:
                det = json.loads(l)
            except Exception:
                pass
    meta = {
        'property': prop,
        'round': 2 if p.endswith('b') else 1,
        'origin': 'written by an independent sub-agent that saw only the property text and a scratch worktree of kaj/rsass (nothing from /verif)',
        'files_changed': files,
        'needs_to_manifest': (re.search(r'(?is)(needs?[^\n]*\n(?:[^\n]+\n){0,4})', notes) or [None, ''])[1].strip()[:600],
        'confirmed_by_me': {
            'worktree_head': c.get('head'),
            'commands': ['git apply patch.diff (scratch worktree /tmp/confirmwt)', 'cargo test --workspace --no-fail-fast --offline', 'bash demo.sh <worktree> (with and without the change)'],
            'suite_with_change': c.get('suite_with_change'),
            'demo_exit_without_change': c.get('demo_clean_rc'),
            'demo_exit_with_change': c.get('demo_changed_rc'),
        },
        'check_result': None if det is None else {
            'command': 'tools/try_seed.py seeded/%s_%s %s' % (p, k, prop),
            'exit': det['exit'], 'detected': det['detected'], 'failed_obligations': det['failed_obligations'][:8],
            'note': (det.get('tail') or '')[-300:] if det['exit'] == 2 else '',
        },
    }
    json.dump(meta, open(os.path.join(dst, 'meta.json'), 'w'), indent=1)
    out.append(dict(seed='%s_%s' % (p, k), property=prop, files=files, detected=None if det is None else det['detected'],
                    exit=None if det is None else det['exit'],
                    obligations=[] if det is None else det['failed_obligations'][:4]))
json.dump(out, open(os.path.join(ROOT, 'seeded', 'detection.json'), 'w'), indent=1)
for o in out:
    print(o)
