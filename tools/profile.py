#!/usr/bin/env python3
"""Development aid: run every registered harness of the given tier once, in
one `cargo kani` invocation per timeout group, print a time table and fill
the result cache of ./check.  usage: profile.py [regex] [--timeout S]"""
import hashlib
import importlib.machinery
import importlib.util
import json
import os
import re
import sys

ROOT = os.path.dirname(os.path.dirname(os.path.abspath(__file__)))
loader = importlib.machinery.SourceFileLoader('check', os.path.join(ROOT, 'check'))
spec = importlib.util.spec_from_loader('check', loader)
check = importlib.util.module_from_spec(spec)
loader.exec_module(check)
registry = check.registry


def main():
    rx = sys.argv[1] if len(sys.argv) > 1 and not sys.argv[1].startswith('--') else '.'
    tmo = None
    if '--timeout' in sys.argv:
        tmo = int(sys.argv[sys.argv.index('--timeout') + 1])
    tier = 'thorough' if '--thorough' in sys.argv else 'quick'
    hs = [h for h in registry.discover() if re.search(rx, h['short']) and (tier == 'thorough' or h['tier'] == 'quick')]
    import fcntl
    os.makedirs(check.WORKROOT, exist_ok=True)
    lock = open(os.path.join(check.WORKROOT, 'lock'), 'w')
    fcntl.flock(lock, fcntl.LOCK_EX)
    work, kv, _ = check.prepare_scratch()
    thash = check.kani_tree_hash()
    groups = {}
    for h in hs:
        groups.setdefault(tmo or h['timeout'], []).append(h)
    table = []
    for t, g in sorted(groups.items()):
        print('[profile] %d harnesses, timeout %d' % (len(g), t), flush=True)
        res, out, wall, rc = check.run_kani_limited(os.path.join(work, 'rsass'), [h['full'] for h in g], t)
        print('[profile] wall %.0fs rc=%s' % (wall, rc), flush=True)
        for h in g:
            r = res.get(h['full']) or {'status': 'MISSING', 'time_s': None, 'failed_checks': []}
            table.append((r.get('time_s') or -1, r['status'], h['short'], [fc['desc'] for fc in r['failed_checks']][:3]))
            if r['status'] in ('SUCCESS', 'FAILED') and not tmo:
                key = check.harness_key(thash, h)
                r['cached'] = False
                check.cache_put(key, r)
    table.sort()
    for t, st, n, fcs in table:
        print('%8.1f %-8s %s %s' % (t, st, n, fcs if fcs else ''))
    json.dump(table, open(os.path.join(check.WORKROOT, 'profile.json'), 'w'), indent=1)


main()
