"""Verus back end: every run re-extracts the real items from /repo's working
tree (tools/extract.py), splices the contracts from /verif/verus/*.rs.tmpl and
runs `verus <file>` (single-file mode; `cargo verus` cannot resolve vstd
offline)."""
import hashlib
import json
import os
import re
import subprocess
import time

import extract

UNITS = {
    'V-range': dict(
        tmpl='range.rs.tmpl', props=['C17', 'C01'],
        functions=['ValueRange::new', '<ValueRange as Iterator>::next', 'lemma L-range (iteration yields a, a±1, …)'],
        assumptions=[
            'Verus/Z3 trusted; vstd specs of i128::partial_cmp, From<i64> for i128, Clone',
            'V-range: UnitSet, Numeric, Value are opaque stubs; Numeric::new and From<Numeric> for Value are uninterpreted constructors',
            'V-range: listed rewrite — `==` between two partial_cmp results routed through opt_ordering_eq (trusted: structural equality of Option<Ordering>)',
            'V-range: `impl Iterator for ValueRange { fn next }` verified as an inherent fn',
        ]),
    'V-buffer-tail': dict(
        tmpl='buffer_tail.rs.tmpl', props=['C07'],
        functions=['CssData::into_buffer (tail: charset/BOM marker, newline trimming)'],
        assumptions=[
            'Verus/Z3 trusted; vstd specs of Vec::{last,pop,push,len,is_empty,with_capacity,extend_from_slice}, str::{len,as_bytes}',
            'V-buffer-tail: assumed contract [u8]::is_ascii == all bytes < 128',
            'V-buffer-tail: listed rewrite — `x.extend(y)` -> vec_extend_vec (trusted: Vec::extend(Vec) appends in order)',
            'V-buffer-tail: assume(byte length of the marker literals <= 32) — feeds only the capacity hint',
            'V-buffer-tail: requires buf.len() <= isize::MAX - 255 (Rust Vec invariant); usize is 64 bit',
            'V-buffer-tail: Format/Error are stubs; the statement range is wrapped in a function whose parameters are its free variables (buf, format)',
            'V-buffer-tail: exactly-one-newline is proved except when compressed output ends in newline + `;` (stated in the postcondition, no such writer output is known)',
        ]),
}


def units_for(pid):
    return [dict(name=k, **v) for k, v in UNITS.items() if pid in v['props']]


def _enclosing_fn(lines, lineno):
    for i in range(min(lineno, len(lines)) - 1, -1, -1):
        m = re.match(r'^\s*(?:pub\s+)?(?:proof\s+|exec\s+)?fn\s+(\w+)', lines[i])
        if m:
            return m.group(1)
    return '?'


def parse_errors(stderr, src_text):
    lines = src_text.split('\n')
    errs = []
    blocks = re.split(r'\n(?=error)', stderr)
    for b in blocks:
        m = re.match(r'error(?:\[E\d+\])?: (.*)', b)
        if not m:
            continue
        msg = m.group(1).strip()
        if msg.startswith('aborting due to'):
            continue
        loc = re.search(r'--> [^:\n]+:(\d+):(\d+)', b)
        lineno = int(loc.group(1)) if loc else 0
        clause = lines[lineno - 1].strip() if 0 < lineno <= len(lines) else ''
        fn = _enclosing_fn(lines, lineno)
        errs.append({'message': msg, 'line': lineno, 'function': fn, 'clause': clause,
                     'obligation': '%s:%s:%s' % (fn, msg, clause[:80]), 'text': b[:1500]})
    return errs


def run_unit(u, repo, root, workroot, log):
    t0 = time.time()
    tmpl = os.path.join(root, 'verus', u['tmpl'])
    res = {'unit': u['name'], 'functions': u['functions'], 'assumptions': u['assumptions'], 'backend': 'verus'}
    try:
        text, report, hashes = extract.process_template(open(tmpl).read(), repo)
    except extract.ExtractError as e:
        res.update(status='EXTRACT_ERROR', detail=str(e), obligations=0, time_s=0)
        return res
    d = os.path.join(workroot, 'verus')
    os.makedirs(d, exist_ok=True)
    path = os.path.join(d, u['name'].replace('-', '_').lower() + '.rs')
    open(path, 'w').write(text)
    res['extraction'] = report
    res['sha256'] = hashlib.sha256(text.encode()).hexdigest()
    # mechanical scan for unchecked assumptions inside the generated file
    res['assume_scan'] = sorted(set(re.findall(r'\b(assume\(|external_body|assume_specification|admit\()', text)))
    p = subprocess.run(['verus', path, '--output-json', '--multiple-errors', '10'], cwd=d, stdout=subprocess.PIPE,
                       stderr=subprocess.PIPE, text=True, timeout=900)
    res['time_s'] = round(time.time() - t0, 2)
    try:
        j = json.loads(p.stdout)
        vr = j['verification-results']
    except Exception:
        res.update(status='TOOL_ERROR', detail=(p.stderr or p.stdout)[-2000:], obligations=0)
        return res
    res['verified'] = vr.get('verified', 0)
    res['obligations'] = vr.get('verified', 0) + vr.get('errors', 0)
    if vr.get('success'):
        if res['verified'] == 0:
            res.update(status='TOOL_ERROR', detail='zero obligations generated (vacuous)')
        else:
            res['status'] = 'SUCCESS'
        res['errors'] = []
        return res
    errs = parse_errors(p.stderr, text)
    if vr.get('encountered-vir-error') or not errs or any(
            e['message'].startswith(('cannot find', 'mismatched types', 'expected', 'no method', 'unresolved'))
            or 'is not supported' in e['message'] for e in errs):
        # Verus could not even process the (changed) text: undecided, not a violation
        res.update(status='TOOL_ERROR', detail=p.stderr[-2500:], errors=errs)
        return res
    res.update(status='FAILED', errors=errs, verus_stderr=p.stderr[-6000:], path=path)
    return res


def run_units(units, repo, root, workroot, log):
    out = []
    for u in units:
        log('[verus] unit %s (extracting from %s) ...' % (u['name'], repo))
        r = run_unit(u, repo, root, workroot, log)
        log('[verus] %s: %s (%s verified, %.1fs)' % (u['name'], r['status'], r.get('verified'), r.get('time_s') or 0))
        out.append(r)
    return out


def write_replay(root, pid, res, oids):
    rdir = os.path.join(root, 'replays')
    os.makedirs(rdir, exist_ok=True)
    rpath = os.path.join(rdir, '%s_%s.json' % (pid, res['unit']))
    rec = {'backend': 'verus', 'property': pid, 'unit': res['unit'], 'obligations': oids,
           'failed': res.get('errors'), 'verus_output': res.get('verus_stderr'),
           'note': 'Verus gives no counterexample: no-failing-input-found. The failed obligation is a clause of the contract of the REAL function text extracted from /repo.',
           'extraction': res.get('extraction'),
           'replay_cmd': './check %s --replay %s' % (pid, rpath)}
    json.dump(rec, open(rpath, 'w'), indent=1)
    return rpath


def replay(rec, repo, root, log):
    u = dict(name=rec['unit'], **UNITS[rec['unit']])
    r = run_unit(u, repo, root, '/var/tmp/rsass-verif', log)
    log('unit %s: %s' % (rec['unit'], r['status']))
    for e in r.get('errors') or []:
        log('  failed obligation: %s' % e['obligation'])
    return 1 if r['status'] == 'FAILED' else (0 if r['status'] == 'SUCCESS' else 2)
