"""Verus back end (filled in below): units extracted verbatim from /repo."""
UNITS = {}


def units_for(pid):
    return [u for u in UNITS.values() if pid in u['props']]


def run_units(units, repo, root, workroot, log):
    return []


def write_replay(root, pid, res, oids):
    return ''


def replay(rec, repo, root, log):
    return 2
