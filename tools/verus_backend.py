"""Verus back end: every run re-extracts the real items from /repo's working
tree (tools/extract.py), splices the contracts from /verif/verus/*.rs.tmpl and
runs `verus <file>` (single-file mode; `cargo verus` cannot resolve vstd
offline)."""
import hashlib
import json
import os
import re
import subprocess
import time

import extract

UNITS = {
    'V-range': dict(
        tmpl='range.rs.tmpl', props=['C17', 'C01'],
        functions=['ValueRange::new', '<ValueRange as Iterator>::next', 'lemma L-range (iteration yields a, a±1, …)'],
        assumptions=[
            'Verus/Z3 trusted; vstd specs of i128::partial_cmp, From<i64> for i128, Clone',
            'V-range: UnitSet, Numeric, Value are opaque stubs; Numeric::new and From<Numeric> for Value are uninterpreted constructors',
            'V-range: listed rewrite — `==` between two partial_cmp results routed through opt_ordering_eq (trusted: structural equality of Option<Ordering>)',
            'V-range: `impl Iterator for ValueRange { fn next }` verified as an inherent fn',
        ]),
    'V-buffer-tail': dict(
        tmpl='buffer_tail.rs.tmpl', props=['C07', 'C01'],
        functions=['CssData::into_buffer (tail: charset/BOM marker, newline trimming)'],
        assumptions=[
            'Verus/Z3 trusted; vstd specs of Vec::{last,pop,push,len,is_empty,with_capacity,extend_from_slice}, str::{len,as_bytes}',
            'V-buffer-tail: assumed contract [u8]::is_ascii == all bytes < 128',
            'V-buffer-tail: listed rewrite — `x.extend(y)` -> vec_extend_vec (trusted: Vec::extend(Vec) appends in order)',
            'V-buffer-tail: assume(byte length of the marker literals <= 32) — feeds only the capacity hint',
            'V-buffer-tail: requires buf.len() <= isize::MAX - 255 (Rust Vec invariant); usize is 64 bit',
            'V-buffer-tail: Format/Error are stubs; the statement range is wrapped in a function whose parameters are its free variables (buf, format)',
            'V-buffer-tail: exactly-one-newline is proved except when compressed output ends in newline + `;` (stated in the postcondition, no such writer output is known)',
        ]),
    'V-ordermap': dict(
        tmpl='ordermap.rs.tmpl', props=['C13'],
        functions=['OrderMap::get', 'OrderMap::len', 'OrderMap::is_empty', 'OrderMap::new', 'OrderMap::singleton',
                   'OrderMap::get_item', 'OrderMap::set_item'],
        assumptions=[
            'Verus/Z3 trusted; vstd specs of Vec::{new,len,is_empty,get,index_mut}, the vec! macro, slice iteration and PartialEq::eq (r == a.eq_spec(b) when K::obeys_eq_spec())',
            'V-ordermap: requires K::obeys_eq_spec() — the key type\'s == is a function of its operands (true of css::Value::eq, which is itself outside this unit)',
            'V-ordermap: listed rewrite — the for loop\'s iterator is named (`for (k, v) in it: &self.0`) so that the invariant can mention its position',
        ]),
    'V-opt': dict(
        tmpl='opt.rs.tmpl', props=['C22'],
        functions=['Opt::collect_pos', 'Opt::collect_neg', 'Opt::map'],
        assumptions=[
            'Verus/Z3 trusted; vstd specs of Vec::{new,push,is_empty} and of iterating a Vec by value',
            'V-opt: listed rewrite of the signature — the parameter type `impl Iterator<Item = Opt<T>>` is replaced by `Vec<Opt<T>>` (Verus has no loop specification for an arbitrary iterator); the body is /repo\'s text; that the iterators the callers pass yield a finite sequence of items is not checked here',
            'V-opt: listed rewrite — `pub(crate) enum Opt` is declared `pub enum Opt` (Verus rejects its generated variant accessors on a crate-visible enum); visibility only',
            'V-opt: Opt::map is verified against the closure\'s own specification (f.requires / f.ensures): requires the payload to be in f\'s domain; what the closures passed by the callers compute is outside this unit',
            'V-opt: listed rewrite — the for loop\'s iterator is named (`for p in it: iter`) and one proof line about Seq::take is inserted in front of the `match` (ghost code only)',
        ]),
    'V-cssbuf': dict(
        tmpl='cssbuf.rs.tmpl', props=['C07', 'C01'],
        functions=['CssBuf::new', 'CssBuf::format', 'CssBuf::start_block', 'CssBuf::end_block', 'CssBuf::pop_nl', 'CssBuf::add_str',
                   'CssBuf::add_one', 'CssBuf::opt_nl', 'CssBuf::len', 'CssBuf::indent_level', 'CssBuf::take',
                   'lemma L-braces (start_block +1 / end_block -1 on the brace balance; indent == 2 * balance holds for what CssBuf::new returns and is invariant)'],
        assumptions=[
            'Verus/Z3 trusted; vstd specs of Vec::{last,pop,is_empty,len,extend_from_slice}, slice::ends_with, str::as_bytes, Option ==',
            'V-cssbuf: Format is a stub (is_compressed only); CssBuf::do_indent is external_body with the contract "appends newline + indent spaces, nothing when compressed", which is discharged on the real code by Kani (c07_cssbuf_do_indent_text_*, contract:get_indent) and Verus V-indent',
            'V-cssbuf: assume(b"\\n\\n"@ == [10, 10]) in opt_nl — Verus does not model byte-string literals',
            'V-cssbuf: requires indent <= usize::MAX - 2 for start_block and indent >= 2 for end_block (a block was opened); usize is 64 bit',
        ]),
    'V-indent': dict(
        tmpl='indent.rs.tmpl', props=['C01', 'C07'],
        functions=['format::long_indent', 'static format::INDENT'],
        assumptions=[
            'Verus/Z3 trusted; vstd specs of String::{push_str,push}, str::len, RangeInclusive<usize> iteration',
            'V-indent: assumed contract String::with_capacity(n)@ == empty',
            'V-indent: listed rewrites — `static INDENT: &str = LIT;` -> `exec static INDENT ... ensures INDENT@ == LIT@ { LIT }` (LIT copied from /repo), iterator named, proof block revealing LIT before the loop',
            'V-indent: requires len >= INDENT.len() (the only call site is the None branch of INDENT.get(..=len)) and len < usize::MAX',
        ]),
}


def units_for(pid):
    return [dict(name=k, **v) for k, v in UNITS.items() if pid in v['props']]


def _enclosing_fn(lines, lineno):
    for i in range(min(lineno, len(lines)) - 1, -1, -1):
        m = re.match(r'^\s*(?:pub(?:\([a-z:]+\))?\s+)?(?:proof\s+|exec\s+)?fn\s+(\w+)', lines[i])
        if m:
            return m.group(1)
    return '?'


def parse_errors(stderr, src_text):
    lines = src_text.split('\n')
    errs = []
    blocks = re.split(r'\n(?=error)', stderr)
    for b in blocks:
        m = re.match(r'error(?:\[E\d+\])?: (.*)', b)
        if not m:
            continue
        msg = m.group(1).strip()
        if msg.startswith('aborting due to'):
            continue
        loc = re.search(r'--> [^:\n]+:(\d+):(\d+)', b)
        lineno = int(loc.group(1)) if loc else 0
        clause = lines[lineno - 1].strip() if 0 < lineno <= len(lines) else ''
        fn = _enclosing_fn(lines, lineno)
        errs.append({'message': msg, 'line': lineno, 'function': fn, 'clause': clause,
                     'obligation': '%s:%s:%s' % (fn, msg, clause[:80]), 'text': b[:1500]})
    return errs


def run_unit(u, repo, root, workroot, log):
    t0 = time.time()
    tmpl = os.path.join(root, 'verus', u['tmpl'])
    res = {'unit': u['name'], 'functions': u['functions'], 'assumptions': u['assumptions'], 'backend': 'verus'}
    try:
        text, report, hashes = extract.process_template(open(tmpl).read(), repo)
    except extract.ExtractError as e:
        res.update(status='EXTRACT_ERROR', detail=str(e), obligations=0, time_s=0)
        return res
    d = os.path.join(workroot, 'verus')
    os.makedirs(d, exist_ok=True)
    path = os.path.join(d, u['name'].replace('-', '_').lower() + '.rs')
    open(path, 'w').write(text)
    res['extraction'] = report
    res['sha256'] = hashlib.sha256(text.encode()).hexdigest()
    # mechanical scan for unchecked assumptions inside the generated file
    res['assume_scan'] = sorted(set(re.findall(r'\b(assume\(|external_body|assume_specification|admit\()', text)))
    p = subprocess.run(['verus', path, '--output-json', '--multiple-errors', '10', '--triggers-mode', 'silent'], cwd=d, stdout=subprocess.PIPE,
                       stderr=subprocess.PIPE, text=True, timeout=900)
    res['time_s'] = round(time.time() - t0, 2)
    try:
        j = json.loads(p.stdout)
        vr = j['verification-results']
    except Exception:
        res.update(status='TOOL_ERROR', detail=(p.stderr or p.stdout)[-2000:], obligations=0)
        return res
    res['verified'] = vr.get('verified', 0)
    res['obligations'] = vr.get('verified', 0) + vr.get('errors', 0)
    if vr.get('success'):
        if res['verified'] == 0:
            res.update(status='TOOL_ERROR', detail='zero obligations generated (vacuous)')
        else:
            res['status'] = 'SUCCESS'
        res['errors'] = []
        return res
    errs = parse_errors(p.stderr, text)
    if vr.get('encountered-vir-error') or not errs or any(
            e['message'].startswith(('cannot find', 'mismatched types', 'expected', 'no method', 'unresolved'))
            or 'is not supported' in e['message'] for e in errs):
        # Verus could not even process the (changed) text: undecided, not a violation
        res.update(status='TOOL_ERROR', detail=p.stderr[-2500:], errors=errs)
        return res
    res.update(status='FAILED', errors=errs, verus_stderr=p.stderr[-6000:], path=path)
    return res


def run_units(units, repo, root, workroot, log):
    out = []
    for u in units:
        log('[verus] unit %s (extracting from %s) ...' % (u['name'], repo))
        r = run_unit(u, repo, root, workroot, log)
        log('[verus] %s: %s (%s verified, %.1fs)' % (u['name'], r['status'], r.get('verified'), r.get('time_s') or 0))
        out.append(r)
    return out


def write_replay(root, pid, res, oids):
    rdir = os.environ.get('VERIF_REPLAY_DIR', os.path.join(root, 'replays'))
    os.makedirs(rdir, exist_ok=True)
    rpath = os.path.join(rdir, '%s_%s.json' % (pid, res['unit']))
    rec = {'backend': 'verus', 'property': pid, 'unit': res['unit'], 'obligations': oids,
           'failed': res.get('errors'), 'verus_output': res.get('verus_stderr'),
           'note': 'Verus gives no counterexample: no-failing-input-found. The failed obligation is a clause of the contract of the REAL function text extracted from /repo.',
           'extraction': res.get('extraction'),
           'replay_cmd': './check %s --replay %s' % (pid, rpath)}
    json.dump(rec, open(rpath, 'w'), indent=1)
    return rpath


def replay(rec, repo, root, log):
    u = dict(name=rec['unit'], **UNITS[rec['unit']])
    r = run_unit(u, repo, root, '/var/tmp/rsass-verif', log)
    log('unit %s: %s' % (rec['unit'], r['status']))
    for e in r.get('errors') or []:
        log('  failed obligation: %s' % e['obligation'])
    return 1 if r['status'] == 'FAILED' else (0 if r['status'] == 'SUCCESS' else 2)
