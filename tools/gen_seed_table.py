#!/usr/bin/env python3
"""Rewrite the seed table in DESIGN.md (between the seeds:begin / seeds:end
markers) from seeded/detection.json and the notes of each seed."""
import json, os, re
ROOT = os.path.dirname(os.path.dirname(os.path.abspath(__file__)))
det = json.load(open(os.path.join(ROOT, 'seeded', 'detection.json')))
rows = ['| seed | changed | what the change does | outcome | failing obligation (first) |', '|---|---|---|---|---|']
n_det = n_und = 0
for d in det:
    notes = os.path.join(ROOT, 'seeded', d['seed'], 'notes.md')
    what = ''
    if os.path.exists(notes):
        txt = open(notes).read()
        m = re.search(r'(?m)^#+ .*\n+((?:[^\n#].*\n?)+)', txt)
        what = ' '.join((m.group(1) if m else txt).split())[:170]
    if d['detected']:
        out = 'VIOLATION'
        n_det += 1
    elif d['exit'] == 2:
        out = 'undecided (exit 2)'
        n_und += 1
    else:
        out = 'missed (exit 0)'
    ob = (d['obligations'] or [''])[0].replace('|', '/')[:90]
    rows.append('| %s | `%s` | %s | %s | %s |' % (d['seed'], d['files'][0].replace('rsass/src/', ''), what.replace('|', '/'), out, '`%s`' % ob if ob else ''))
rows.append('')
rows.append('%d seeds, each confirmed independently (applies, whole suite green, demonstration fails with / passes without the change): '
            '%d reported as VIOLATION with a named obligation, %d undecided (anchor lost or harness no longer compiles: exit 2, no alarm), %d missed.'
            % (len(det), n_det, n_und, len(det) - n_det - n_und))
p = os.path.join(ROOT, 'DESIGN.md')
s = open(p).read()
a, b = s.index('<!-- seeds:begin -->'), s.index('<!-- seeds:end -->')
s = s[:a] + '<!-- seeds:begin -->\n' + '\n'.join(rows) + '\n' + s[b:]
open(p, 'w').write(s)
print(rows[-1])
