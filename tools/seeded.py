#!/usr/bin/env python3
"""Seeded-change self test (development aid, not a registered check).

For each entry: copy /repo's working tree to a scratch directory outside
/repo and /verif, apply ONE textual change that breaks a property while
still compiling, run `./check <id> --only <regex>` on the copy
(VERIF_REPO), and record whether the named obligation fails (exit 1 +
VIOLATION line).  The scratch copy is removed afterwards.  Results go to
/verif/seeded/results.json.

usage: seeded.py [name-regex]
"""
import json
import os
import re
import shutil
import subprocess
import sys
import time

ROOT = os.path.dirname(os.path.dirname(os.path.abspath(__file__)))
SCRATCH = '/var/tmp/rsass-verif-seeded/repo'

SEEDS = [
    dict(name='c13_eq_by_vector', pid='C13', only='^c13_ordermap_eq_order_insensitive_n2',
         file='rsass/src/ordermap.rs',
         old="""        self.0.len() == other.0.len()
            && subset(&self.0, &other.0)
            && subset(&other.0, &self.0)""",
         new="""        let _ = subset::<K, V>;
        self.0 == other.0""",
         what='map equality compares the entry vectors (order sensitive again)'),
    dict(name='c13_insert_prepends', pid='C13', only='^c13_ordermap_insert_n[02]$',
         file='rsass/src/ordermap.rs',
         old="        self.0.push((key, value));\n        None",
         new="        self.0.insert(0, (key, value));\n        None",
         what='map.set puts a new key first instead of last'),
    dict(name='c12_number_eq_one_sided', pid='C12', only='^c12_number_eq_symmetric$',
         file='rsass/src/value/number.rs',
         old="/ self.value.abs().max(other.value.abs())",
         new="/ self.value.abs()",
         what='Number::eq divides by |self| only (asymmetric epsilon)'),
    dict(name='c14_empty_list_falsey', pid='C14', only='^c14_value_is_true_empty_list$',
         file='rsass/src/css/value.rs',
         old="!matches!(self, Self::False | Self::Null)",
         new="!matches!(self, Self::False | Self::Null) && !matches!(self, Self::List(v, _, _) if v.is_empty())",
         what='the empty list becomes falsey'),
    dict(name='c11_pc_ratio', pid='C11', only='^c11_scale_to_(pc|px)$',
         file='rsass/src/value/unit.rs',
         old="Self::Pc => 254. / 60.,",
         new="Self::Pc => 254. / 72.,",
         what='1pc is no longer 16px'),
    dict(name='c28_index_off_by_one', pid='C28', only='^c28_index_of$',
         file='rsass/src/sass/functions/list.rs',
         old="if n.is_positive() && n as usize <= len {",
         new="if n.is_positive() && (n as usize) < len {",
         what='nth($list, length($list)) is rejected'),
    dict(name='c17_through_excludes_end', pid='C17', only='^$',
         file='rsass/src/value/range.rs',
         old="let to = if inclusive { to + step } else { to };",
         new="let to = if inclusive { to } else { to - step };",
         what='@for ... through b stops one short'),
    dict(name='c01_indent_slice_panics', pid='C01', only='^c01_get_indent_contract$|^c01_cssbuf_do_indent_depth64_expanded$',
         file='rsass/src/output/format.rs',
         old="""        } else if let Some(indent) = INDENT.get(..=len) {
            Cow::Borrowed(indent)
        } else {
            Cow::Owned(long_indent(len))
        }""",
         new="""        } else {
            let _ = long_indent;
            Cow::Borrowed(&INDENT[..=len])
        }""",
         what='get_indent slices the static 80-space string again (panics beyond 80)'),
    dict(name='c31_alpha_not_clamped', pid='C31', only='^c31_color_set_alpha_in_range$|^c31_rgba_set_alpha',
         file='rsass/src/value/colors/mod.rs',
         old="let alpha = alpha.clamp(0., 1.);",
         new="let alpha = alpha.min(1.);",
         expect_quiet=True,
         what='EQUIVALENT change (control): Color::set_alpha stops clamping negative alpha, but every representation clamps again — the property still holds and the check must stay quiet'),
    dict(name='c31_rgba_alpha_not_clamped', pid='C31', only='^c31_rgba_set_alpha_in_range$',
         file='rsass/src/value/colors/rgba.rs',
         old="""    pub fn set_alpha(&mut self, alpha: f64) {
        self.alpha = alpha.clamp(0., 1.);""",
         new="""    pub fn set_alpha(&mut self, alpha: f64) {
        self.alpha = alpha.min(1.);""",
         what='Rgba::set_alpha no longer clamps negative alpha'),
    dict(name='c32_invert_keeps_hue', pid='C32', only='^c32_hsla_invert',
         file='rsass/src/value/colors/hsla.rs',
         old="hue: deg_mod(self.hue + 180.),",
         new="hue: deg_mod(self.hue + 0.),",
         what='Hsla::invert no longer rotates the hue by half a turn'),
    dict(name='c07_no_final_newline', pid='C07', only='^$',
         file='rsass/src/output/cssdata.rs',
         old="""        if !result.is_empty() {
            result.push(b'\\n');
        }
        Ok(result)""",
         new="""        if !result.is_empty() && compressed {
            result.push(b'\\n');
        }
        Ok(result)""",
         what='expanded output loses its final newline'),
    dict(name='c22_collect_neg_any', pid='C22', only='^c22_opt_collect_neg$',
         file='rsass/src/css/selectors/opt.rs',
         old="""                Opt::Some(p) => result.push(p),
                Opt::Any => (),
                Opt::None => return Opt::None,
            }
        }
        if result.is_empty() {
            Opt::Any""",
         new="""                Opt::Some(p) => result.push(p),
                Opt::Any => return Opt::None,
                Opt::None => (),
            }
        }
        if result.is_empty() {
            Opt::Any""",
         what='negated placeholder collection flips its absorbing element'),
]


def sh(cmd, **kw):
    return subprocess.run(cmd, stdout=subprocess.PIPE, stderr=subprocess.STDOUT, text=True, **kw)


def main():
    rx = sys.argv[1] if len(sys.argv) > 1 else '.'
    out = []
    for s in SEEDS:
        if not re.search(rx, s['name']) or s['old'] is None:
            continue
        shutil.rmtree(os.path.dirname(SCRATCH), ignore_errors=True)
        os.makedirs(SCRATCH)
        sh(['rsync', '-a', '--exclude', '/target', '--exclude', '.git', '/repo/', SCRATCH + '/'])
        p = os.path.join(SCRATCH, s['file'])
        txt = open(p).read()
        if txt.count(s['old']) != 1:
            out.append(dict(name=s['name'], result='anchor not unique (%d)' % txt.count(s['old'])))
            print(out[-1], flush=True)
            continue
        open(p, 'w').write(txt.replace(s['old'], s['new']))
        t0 = time.time()
        r = sh([os.path.join(ROOT, 'check'), s['pid'], '--only', s['only']],
               env=dict(os.environ, VERIF_REPO=SCRATCH, VERIF_EVIDENCE_DIR='/var/tmp/rsass-verif-seeded/evidence'))
        viol = re.findall(r'^VIOLATION .*$', r.stdout, re.M)
        failed = re.findall(r'^  failed obligation: (.*)$', r.stdout, re.M)
        out.append(dict(name=s['name'], property=s['pid'], change=s['what'], file=s['file'], exit=r.returncode,
                        detected=bool(r.returncode == 1 and viol), expected='quiet (exit 0)' if s.get('expect_quiet') else 'VIOLATION (exit 1)',
                        as_expected=(r.returncode == 0 and not viol) if s.get('expect_quiet') else bool(r.returncode == 1 and viol),
                        failed_obligations=failed,
                        violation_lines=viol, wall_s=round(time.time() - t0, 1),
                        tail=r.stdout[-600:] if r.returncode != 1 else ''))
        print(json.dumps(out[-1]), flush=True)
    shutil.rmtree(os.path.dirname(SCRATCH), ignore_errors=True)
    os.makedirs(os.path.join(ROOT, 'seeded'), exist_ok=True)
    rp = os.path.join(ROOT, 'seeded', 'results.json')
    if rx != '.' and os.path.exists(rp):   # partial run: merge into the existing record
        old = [o for o in json.load(open(rp)) if o['name'] not in [x['name'] for x in out]]
        order = [x['name'] for x in SEEDS]
        out = sorted(old + out, key=lambda o: order.index(o['name']) if o['name'] in order else 99)
    json.dump(out, open(rp, 'w'), indent=1)


main()
