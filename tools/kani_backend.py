"""Kani back end: build the scratch copy's rsass crate with cfg(kani), run a
set of harnesses in one `cargo kani` invocation and parse the per-harness
results (terse output, parallel threads)."""
import os
import re
import subprocess
import time

KANI_FLAGS = [
    "-Z", "function-contracts", "-Z", "stubbing", "-Z", "unstable-options",
    "--no-overflow-checks", "--output-format", "terse",
]

_norm_re = [
    (re.compile(r'concat!\s*\('), ''),
    (re.compile(r'stringify!\s*\(\s*([A-Za-z0-9_]+)\s*\)'), r'\1'),
]


def normalize_desc(d):
    """Turn `concat! ("scale_to ", stringify! (Ex), "->", stringify! (Em))`
    into `scale_to Ex->Em`; strip surrounding quotes."""
    d = d.strip()
    if d.startswith('concat!'):
        for r, s in _norm_re:
            d = r.sub(s, d)
        d = d.rstrip(')')
        parts = [p.strip().strip('"') for p in d.split(',')]
        d = ''.join(parts)
    if len(d) >= 2 and d[0] == '"' and d[-1] == '"':
        d = d[1:-1]
    return d


def parse_output(text):
    """-> dict harness_fullname -> result dict"""
    results = {}
    cur_by_thread = {}
    lines = text.splitlines()
    i = 0
    block_owner = None  # harness whose result block we are inside
    single = None
    while i < len(lines):
        ln = lines[i]
        m = re.match(r'^(?:Thread (\d+): )?Checking harness (\S+?)\.\.\.$', ln)
        if m:
            th = m.group(1) or 'single'
            cur_by_thread[th] = m.group(2)
            results.setdefault(m.group(2), {
                'harness': m.group(2), 'status': 'UNKNOWN', 'failed_checks': [],
                'time_s': None, 'checks_total': None, 'checks_failed': None,
                'covers': None, 'raw': []})
            if th == 'single':
                block_owner = m.group(2)
            i += 1
            continue
        m = re.match(r'^Thread (\d+): \s*$', ln)
        if m:
            block_owner = cur_by_thread.get(m.group(1))
            i += 1
            continue
        if block_owner and block_owner in results:
            r = results[block_owner]
            r['raw'].append(ln)
            m = re.match(r'^ \*\* (\d+) of (\d+) failed', ln)
            if m:
                r['checks_failed'] = int(m.group(1))
                r['checks_total'] = int(m.group(2))
            m = re.match(r'^ \*\* (\d+) of (\d+) cover properties satisfied', ln)
            if m:
                r['covers'] = (int(m.group(1)), int(m.group(2)))
            m = re.match(r'^Failed Checks: (.*)$', ln)
            if m:
                fc = {'desc': normalize_desc(m.group(1)), 'file': None, 'line': None, 'func': None}
                if i + 1 < len(lines):
                    m2 = re.match(r'^ File: "([^"]+)", line (\d+), in (.*)$', lines[i + 1])
                    if m2:
                        fc['file'] = m2.group(1)
                        fc['line'] = int(m2.group(2))
                        fc['func'] = m2.group(3)
                r['failed_checks'].append(fc)
            if ln.startswith('VERIFICATION:- '):
                if 'SUCCESSFUL' in ln:
                    r['status'] = 'SUCCESS'
                else:
                    r['status'] = 'FAILED'
            if 'CBMC timed out' in ln or 'timed out' in ln:
                r['status'] = 'TIMEOUT'
            if ln.startswith('CBMC failed') and r['status'] == 'UNKNOWN':
                r['status'] = 'ERROR'
            m = re.match(r'^Verification Time: ([0-9.]+)s', ln)
            if m:
                r['time_s'] = float(m.group(1))
                block_owner = None
        i += 1
    # a FAILED harness without any failed check and with "CBMC failed" is an
    # engine problem (timeout / out of memory), not a property failure
    for r in results.values():
        raw = '\n'.join(r['raw'])
        if r['status'] == 'FAILED' and not r['failed_checks']:
            # no failed check was reported: CBMC was killed (timeout, out of
            # memory) — with -j the explanatory line is not attributed to
            # the harness, so classify by the absence of a failed check
            r['status'] = 'TIMEOUT' if 'timed out' in raw else 'ERROR'
        r['raw'] = raw[-4000:]
    return results


def run_kani(crate_dir, harnesses, jobs=16, timeout_s=300, extra=None, exact=True,
             log_path=None, overall_timeout=None):
    """Run the given harnesses (fully qualified names when exact) and return
    (results dict, raw output, wall seconds, returncode)."""
    cmd = ["cargo", "kani"] + KANI_FLAGS + ["--harness-timeout", "%ds" % timeout_s, "-j", str(jobs)]
    if exact:
        cmd.append("--exact")
    for h in harnesses:
        cmd += ["--harness", h]
    if extra:
        cmd += extra
    env = dict(os.environ)
    env["CARGO_NET_OFFLINE"] = "true"
    env.pop("RUSTFLAGS", None)
    t0 = time.time()
    try:
        p = subprocess.run(cmd, cwd=crate_dir, env=env, stdout=subprocess.PIPE,
                           stderr=subprocess.STDOUT, text=True,
                           timeout=overall_timeout)
        out, rc = p.stdout, p.returncode
    except subprocess.TimeoutExpired as e:
        out = (e.stdout or b'').decode('utf-8', 'replace') if isinstance(e.stdout, bytes) else (e.stdout or '')
        rc = -9
    wall = time.time() - t0
    if log_path:
        with open(log_path, 'w') as f:
            f.write(' '.join(cmd) + '\n' + out)
    return parse_output(out), out, wall, rc


def list_harnesses(out):
    return sorted(set(re.findall(r'Checking harness (\S+?)\.\.\.', out)))


if __name__ == '__main__':
    import sys
    import json
    txt = open(sys.argv[1]).read()
    res = parse_output(txt)
    for h, r in sorted(res.items()):
        print('%-8s %7s  %s' % (r['status'], ('%.1f' % r['time_s']) if r['time_s'] else '-', h))
        for fc in r['failed_checks']:
            print('           - %s  [%s:%s]' % (fc['desc'], fc['file'], fc['line']))
