#!/usr/bin/env python3
"""Confirm sub-agent seeds independently: for each /tmp/seed/<P>-out/<k>/ apply
patch.diff in ONE scratch worktree of /repo HEAD (outside /repo and /verif),
run the whole test suite (must pass), run demo.sh with the change (must
fail) and on the clean tree (must pass), revert.  Results: /var/tmp/confirm/<P>_<k>.json
usage: confirm_seed.py P:k [P:k ...]"""
import json, os, subprocess, sys, time
WT = '/tmp/confirmwt'
OUT = '/var/tmp/confirm'

def sh(cmd, **kw):
    return subprocess.run(cmd, stdout=subprocess.PIPE, stderr=subprocess.STDOUT, text=True, **kw)

def suite():
    r = sh(['cargo', 'test', '--workspace', '--no-fail-fast', '--offline'], cwd=WT)
    res = [l for l in r.stdout.splitlines() if l.startswith('test result')]
    failed = sum(int(l.split(' failed')[0].split()[-1]) for l in res)
    passed = sum(int(l.split(' passed')[0].split()[-1]) for l in res)
    comp_err = 'error: could not compile' in r.stdout or 'error[E' in r.stdout
    return dict(passed=passed, failed=failed, compile_error=comp_err, rc=r.returncode)

def main():
    os.makedirs(OUT, exist_ok=True)
    if not os.path.isdir(WT):
        sh(['git', '-C', '/repo', 'worktree', 'add', '--detach', WT, 'HEAD'])
        sh(['cp', '-a', '/repo/target', WT + '/target'])
    else:
        sh(['git', '-C', WT, 'checkout', '--detach', sh(['git', '-C', '/repo', 'rev-parse', 'HEAD']).stdout.strip()])
    for spec in sys.argv[1:]:
        p, k = spec.split(':')
        d = '/tmp/seed/%s-out/%s' % (p, k)
        rec = dict(seed=spec, dir=d, head=sh(['git', '-C', WT, 'rev-parse', 'HEAD']).stdout.strip())
        sh(['git', '-C', WT, 'checkout', '--', '.'])
        demo = os.path.join(d, 'demo.sh')
        t0 = time.time()
        if os.path.exists(demo):
            r0 = sh(['bash', demo, WT])
            rec['demo_clean_rc'] = r0.returncode
        a = sh(['git', '-C', WT, 'apply', os.path.join(d, 'patch.diff')])
        if a.returncode != 0:
            a = sh(['patch', '-p1', '--no-backup-if-mismatch', '-i', os.path.join(d, 'patch.diff')], cwd=WT)
        rec['applies'] = a.returncode == 0
        rec['apply_out'] = a.stdout[-500:]
        if rec['applies']:
            rec['suite_with_change'] = suite()
            if os.path.exists(demo):
                r1 = sh(['bash', demo, WT])
                rec['demo_changed_rc'] = r1.returncode
                rec['demo_changed_tail'] = r1.stdout[-600:]
        sh(['git', '-C', WT, 'checkout', '--', '.'])
        sh(['git', '-C', WT, 'clean', '-fdq', '-e', 'target'])
        rec['wall_s'] = round(time.time() - t0)
        s = rec.get('suite_with_change', {})
        rec['confirmed'] = bool(rec['applies'] and s.get('failed') == 0 and not s.get('compile_error') and s.get('passed', 0) > 6000
                                and rec.get('demo_clean_rc') == 0 and rec.get('demo_changed_rc', 0) != 0)
        json.dump(rec, open(os.path.join(OUT, '%s_%s.json' % (p, k)), 'w'), indent=1)
        print(spec, 'confirmed' if rec['confirmed'] else 'NOT confirmed', {k2: rec.get(k2) for k2 in ('applies', 'demo_clean_rc', 'demo_changed_rc')}, s, flush=True)

main()
