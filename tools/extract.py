#!/usr/bin/env python3
"""Mechanical extraction of real items from /repo for the verifiers.

A template (verus/*.rs.tmpl or kani_x/*.rs.tmpl) contains directives:

  //@item file=<path under /repo> kind=fn|struct|enum|static name=<ident> [impl=<header prefix>] [nth=<k>]
  //@  sig: <replacement for the return part, e.g.  -> (r: Self)>       (optional; names the return value)
  //@  spec: <clause line>                                              (0..n lines, inserted between signature and body)
  //@  loop <k>: <clause line>                                          (inserted after the k-th loop header, before its `{`)
  //@  subst: <literal text> => <replacement>                           (explicit, listed rewrites of the body text)
  //@  headsubst: <literal text> => <replacement>                       (explicit, listed rewrite of the signature text, e.g. a parameter type)
  //@  resubst: <regex> => <replacement>                                (same with a regex; applies where it matches, no error if it does not)
  //@  name-iter <k>: <ident>                                            (k-th loop must be `for PAT in EXPR {`; rewritten to `for PAT in <ident>: EXPR {` so that invariants can mention the iterator's ghost state)
  //@  before-text "<anchor>": <ghost line>                              (inserted in front of the first occurrence of the anchor text in the body)
  //@  body-start: <ghost line>                                          (inserted right after the opening brace of the body; proof blocks / listed assumptions only)
  //@  exec-static                                                      (kind=static of type &str: emit `exec static N: &'static str ensures N@ == <lit>@ { <lit> }`; the literal is also available as ${lit:N} in later directive lines)
  //@  strip-attrs                                                      (drop #[...] attribute lines and doc comments in front of the item)
  //@  unimpl-trait                                                     (fn comes from `impl Trait for T`; emit as inherent fn)
  //@end

Everything else in the template is copied.  The extractor prints (and returns)
exactly which rewrites it applied.  Anything it cannot find is an error
(exit 2): never silently dropped.
"""
import hashlib
import os
import re
import sys


class ExtractError(Exception):
    pass


def _skip_string(s, i):
    """s[i] == '"' ; return index after the closing quote."""
    i += 1
    while i < len(s):
        if s[i] == '\\':
            i += 2
            continue
        if s[i] == '"':
            return i + 1
        i += 1
    raise ExtractError('unterminated string')


def _skip_raw_string(s, i):
    m = re.match(r'r(#*)"', s[i:])
    hashes = m.group(1)
    end = s.find('"' + hashes, i + len(m.group(0)))
    if end < 0:
        raise ExtractError('unterminated raw string')
    return end + 1 + len(hashes)


def _skip_char(s, i):
    """s[i] == "'" : char literal or lifetime."""
    m = re.match(r"'(\\.[^']*|[^'\\])'", s[i:])
    if m:
        return i + len(m.group(0))
    return i + 1  # lifetime


def match_brace(s, i):
    """s[i] == '{' ; return index of the matching '}'."""
    depth = 0
    n = len(s)
    while i < n:
        c = s[i]
        if c == '/' and s.startswith('//', i):
            j = s.find('\n', i)
            i = n if j < 0 else j
            continue
        if c == '/' and s.startswith('/*', i):
            j = s.find('*/', i)
            i = j + 2
            continue
        if c == '"':
            i = _skip_string(s, i)
            continue
        if c == 'r' and re.match(r'r#*"', s[i:]) and (i == 0 or not (s[i - 1].isalnum() or s[i - 1] == '_')):
            i = _skip_raw_string(s, i)
            continue
        if c == 'b' and s.startswith('b"', i):
            i = _skip_string(s, i + 1)
            continue
        if c == 'b' and s.startswith("b'", i):
            i = _skip_char(s, i + 1)
            continue
        if c == "'":
            i = _skip_char(s, i)
            continue
        if c == '{':
            depth += 1
        elif c == '}':
            depth -= 1
            if depth == 0:
                return i
        i += 1
    raise ExtractError('unbalanced braces')


def find_impl_block(src, header):
    """Return (start, end) of the body of the first `impl` block whose header
    line starts with `header` (whitespace-normalised)."""
    for m in re.finditer(r'^impl\b[^{]*\{', src, re.M):
        head = ' '.join(m.group(0)[:-1].split())
        want = ' '.join(header.split())
        if head == want or (head.startswith(want) and not (head[len(want)].isalnum() or head[len(want)] == '_')):
            ob = m.end() - 1
            cb = match_brace(src, ob)
            return ob + 1, cb
    raise ExtractError('impl block %r not found' % header)


def find_item(src, kind, name, impl=None, nth=1):
    lo, hi = 0, len(src)
    if impl:
        lo, hi = find_impl_block(src, impl)
    region = src[lo:hi]
    if kind == 'fn':
        rx = re.compile(r'^[ \t]*(?:pub(?:\([a-z:]+\))?\s+)?(?:const\s+)?fn\s+' + re.escape(name) + r'\b', re.M)
    elif kind == 'struct':
        rx = re.compile(r'^[ \t]*(?:pub(?:\([a-z:]+\))?\s+)?struct\s+' + re.escape(name) + r'\b', re.M)
    elif kind == 'enum':
        rx = re.compile(r'^[ \t]*(?:pub(?:\([a-z:]+\))?\s+)?enum\s+' + re.escape(name) + r'\b', re.M)
    elif kind == 'static':
        rx = re.compile(r'^[ \t]*(?:pub(?:\([a-z:]+\))?\s+)?(?:static|const)\s+' + re.escape(name) + r'\b', re.M)
    else:
        raise ExtractError('unknown kind ' + kind)
    ms = list(rx.finditer(region))
    if len(ms) < nth:
        raise ExtractError('%s %s not found%s' % (kind, name, (' in ' + impl) if impl else ''))
    m = ms[nth - 1]
    start = lo + m.start()
    if kind == 'static':
        end = src.find(';', start) + 1
        return start, end, None
    ob = src.find('{', start)
    semi = src.find(';', start)
    if kind == 'struct' and 0 <= semi < ob:
        return start, semi + 1, None
    cb = match_brace(src, ob)
    return start, cb + 1, ob


def leading_attrs(src, start):
    """Return start index including the attribute / doc-comment lines that
    directly precede the item."""
    lines_start = start
    while True:
        prev_end = src.rfind('\n', 0, lines_start - 1) if lines_start > 0 else -1
        line = src[prev_end + 1:lines_start - 1] if lines_start > 0 else ''
        st = line.strip()
        if st.startswith('#[') or st.startswith('///') or st.startswith('//'):
            lines_start = prev_end + 1
            if prev_end < 0:
                break
        else:
            break
    return lines_start


_loop_rx = re.compile(r'\b(while|for|loop)\b')


def loop_headers(body):
    """Yield (index_of_open_brace) for each loop in source order, skipping
    strings/comments crudely (bodies under proof contain none that matter)."""
    out = []
    i = 0
    n = len(body)
    while i < n:
        c = body[i]
        if body.startswith('//', i):
            j = body.find('\n', i)
            i = n if j < 0 else j
            continue
        if c == '"':
            i = _skip_string(body, i)
            continue
        if c == "'":
            i = _skip_char(body, i)
            continue
        m = _loop_rx.match(body, i)
        if m and (i == 0 or not (body[i - 1].isalnum() or body[i - 1] == '_')):
            ob = body.find('{', m.end())
            # `for` may contain closures with braces; bodies under proof do not
            out.append(ob)
            i = m.end()
            continue
        i += 1
    return out


def _parse_attrs(ln):
    """key=value pairs of a directive line; values may be quoted, with \\" for a quote inside."""
    out = {}
    for k, v in re.findall(r'(\w+)=("(?:[^"\\]|\\.)*"|\S+)', ln):
        if v.startswith('"'):
            v = v[1:-1].replace('\\"', '"')
        out[k] = v
    return out


def _expand_lits(line, lits):
    return re.sub(r'\$\{lit:(\w+)\}', lambda m: lits[m.group(1)], line)


def process_template(tmpl_text, repo):
    lits = {}
    out = []
    report = []
    hashes = {}
    lines = tmpl_text.split('\n')
    i = 0
    while i < len(lines):
        ln = lines[i]
        if ln.startswith('//@item'):
            attrs = _parse_attrs(ln)
            directives = []
            i += 1
            while not lines[i].startswith('//@end'):
                directives.append(lines[i])
                i += 1
            path = os.path.join(repo, attrs['file'])
            try:
                src = open(path).read()
            except OSError:
                raise ExtractError('anchor lost: %s missing' % attrs['file'])
            start, end, ob = find_item(src, attrs.get('kind', 'fn'), attrs['name'], attrs.get('impl'),
                                       int(attrs.get('nth', '1')))
            text = src[start:end]
            sha = hashlib.sha256(text.encode()).hexdigest()
            ident = '%s:%s%s' % (attrs['file'], (attrs['impl'] + '::') if attrs.get('impl') else '', attrs['name'])
            hashes[ident] = sha
            changes = []
            sig = None
            specs = []
            loops = {}
            substs = []
            head_substs = []
            pre = []
            body_start = []
            item_before_text = []
            name_iter = {}
            exec_static = False
            directives = [_expand_lits(d, lits) for d in directives]
            for d in directives:
                m = re.match(r'^//@\s+sig:\s?(.*)$', d)
                if m:
                    sig = m.group(1)
                    continue
                m = re.match(r'^//@\s+spec:\s?(.*)$', d)
                if m:
                    specs.append(m.group(1))
                    continue
                m = re.match(r'^//@\s+loop (\d+):\s?(.*)$', d)
                if m:
                    loops.setdefault(int(m.group(1)), []).append(m.group(2))
                    continue
                m = re.match(r'^//@\s+subst:\s?(.*?) => (.*)$', d)
                if m:
                    substs.append((m.group(1), m.group(2)))
                    continue
                m = re.match(r'^//@\s+resubst:\s?(.*?) => (.*)$', d)
                if m:
                    substs.append((re.compile(m.group(1)), m.group(2)))
                    continue
                m = re.match(r'^//@\s+headsubst:\s?(.*?) => (.*)$', d)
                if m:
                    head_substs.append((m.group(1), m.group(2)))
                    continue
                m = re.match(r'^//@\s+pre:\s?(.*)$', d)
                if m:
                    pre.append(m.group(1))
                    continue
                m = re.match(r'^//@\s+body-start:\s?(.*)$', d)
                if m:
                    body_start.append(m.group(1))
                    continue
                m = re.match(r'^//@\s+name-iter (\d+):\s?(\w+)\s*$', d)
                if m:
                    name_iter[int(m.group(1))] = m.group(2)
                    continue
                m = re.match(r'^//@\s+before-text "(.*?)":\s?(.*)$', d)
                if m:
                    item_before_text.append((m.group(1), m.group(2)))
                    continue
                if d.strip() == '//@  exec-static':
                    exec_static = True
                    continue
                if d.strip() in ('//@  strip-attrs', '//@  unimpl-trait', '//@'):
                    continue
                raise ExtractError('bad directive: ' + d)
            if ob is not None:
                head = text[:ob - start]
                body = text[ob - start:]
                for anchor, ghost in item_before_text:
                    pp = body.find(anchor)
                    if pp < 0:
                        raise ExtractError('%s: anchor text %r not found (code changed?)' % (ident, anchor))
                    body = body[:pp] + ghost + '\n        ' + body[pp:]
                    changes.append('before %r: inserted ghost line %r' % (anchor, ghost))
                # loops first (indices into body)
                if loops or name_iter:
                    lh = loop_headers(body)
                    for k in sorted(set(loops) | set(name_iter), reverse=True):
                        if k > len(lh):
                            raise ExtractError('%s: loop %d not found' % (ident, k))
                        pos = lh[k - 1]
                        if k in loops:
                            ins = '\n' + '\n'.join('        ' + c for c in loops[k]) + '\n    '
                            body = body[:pos] + ins + body[pos:]
                            changes.append('loop %d: inserted %d clause line(s)' % (k, len(loops[k])))
                        if k in name_iter:
                            kw = body.rfind('for', 0, pos)
                            hm = re.match(r'^for\s+(.+?)\s+in\s+(.+?)\s*$', body[kw:pos], re.S)
                            if kw < 0 or not hm:
                                raise ExtractError('%s: loop %d is not a `for PAT in EXPR` loop' % (ident, k))
                            body = body[:kw] + 'for %s in %s: %s ' % (hm.group(1), name_iter[k], hm.group(2)) + body[pos:]
                            changes.append('loop %d: iterator named `%s`' % (k, name_iter[k]))
                for a, b in substs:
                    if hasattr(a, 'pattern'):
                        body, n = a.subn(b, body)
                        if n:
                            changes.append('regex rewrite %r => %r (%d place(s))' % (a.pattern, b, n))
                        continue
                    if a not in body:
                        raise ExtractError('%s: subst source text %r not found (code changed?)' % (ident, a))
                    body = body.replace(a, b)
                    changes.append('subst %r => %r' % (a, b))
                for a, b in head_substs:
                    if a not in head:
                        raise ExtractError('%s: headsubst source text %r not found in the signature (code changed?)' % (ident, a))
                    head = head.replace(a, b)
                    changes.append('signature rewrite %r => %r' % (a, b))
                if sig is not None:
                    m = re.search(r'->\s*[^{]*$', head, re.S)
                    if m:
                        head = head[:m.start()] + sig + ' '
                    else:
                        head = head.rstrip() + ' ' + sig + ' '
                    changes.append('return value named: %s' % sig.strip())
                if specs:
                    head = head.rstrip() + '\n' + '\n'.join('    ' + c for c in specs) + '\n'
                    changes.append('inserted %d spec clause line(s)' % len(specs))
                if body_start:
                    body = '{\n' + '\n'.join('        ' + c for c in body_start) + body[1:]
                    changes.append('inserted %d ghost line(s) at the start of the body' % len(body_start))
                text = head + body
            elif exec_static:
                m = re.match(r'^\s*(?:pub(?:\([a-z:]+\))?\s+)?static\s+(\w+)\s*:\s*&(?:\'static\s+)?str\s*=\s*("(?:[^"\\]|\\.)*")\s*;\s*$', text, re.S)
                if not m:
                    raise ExtractError('%s: not a `static NAME: &str = "literal";` item' % ident)
                lits[m.group(1)] = m.group(2)
                text = "exec static %s: &'static str\n    ensures %s@ == %s@\n{ %s }" % (m.group(1), m.group(1), m.group(2), m.group(2))
                changes.append("static rewritten as `exec static` with an ensures clause stating its own literal")
            if pre:
                text = '\n'.join(pre) + '\n' + text
                changes.append('prefixed %d line(s): %s' % (len(pre), ' | '.join(pre)))
            out.append('// ---- extracted verbatim from %s (sha256 %s) ----' % (ident, sha[:16]))
            out.append(text)
            out.append('// ---- end of extract ----')
            report.append({'item': ident, 'sha256': sha, 'rewrites': changes})
            i += 1
            continue
        if ln.startswith('//@range'):
            attrs = {k: v.replace('\\n', '\n') for k, v in _parse_attrs(ln).items()}
            directives = []
            i += 1
            while not lines[i].startswith('//@end'):
                directives.append(lines[i])
                i += 1
            path = os.path.join(repo, attrs['file'])
            try:
                src = open(path).read()
            except OSError:
                raise ExtractError('anchor lost: %s missing' % attrs['file'])
            start, end, ob = find_item(src, 'fn', attrs['fn'], attrs.get('impl'))
            fbody = src[ob + 1:end - 1]
            # start of the range: after the text `after`, or at the text `from`
            # (the nth occurrence when nth= is given)
            key = 'after' if 'after' in attrs else 'from'
            if key not in attrs:
                # neither `after` nor `from`: the range starts with the function body
                attrs[key] = ''
            pos = -1
            for _ in range(int(attrs.get('nth', '1'))):
                pos = fbody.find(attrs[key], pos + 1)
                if pos < 0:
                    break
            if pos < 0:
                raise ExtractError('anchor lost: statement %r not found in %s' % (attrs[key], attrs['fn']))
            rstart = pos + len(attrs[key]) if key == 'after' else pos
            # end of the range: before the text `until`, or the brace block
            # opened by the last `{` of the `from` text (balanced), or the end of the fn
            if 'until' in attrs:
                rend = fbody.find(attrs['until'], rstart)
                if rend < 0:
                    raise ExtractError('anchor lost: end text %r not found in %s' % (attrs['until'], attrs['fn']))
            elif 'balanced' in attrs:
                obr = fbody.rfind('{', pos, pos + len(attrs[key]))
                if obr < 0:
                    raise ExtractError('balanced range: anchor %r has no `{`' % attrs[key])
                rend = match_brace(fbody, obr) + 1
            else:
                rend = len(fbody)
            body = fbody[rstart:rend]
            sha = hashlib.sha256(body.encode()).hexdigest()
            ident = '%s:%s%s[%s %s%s]' % (attrs['file'], (attrs['impl'] + '::') if attrs.get('impl') else '', attrs['fn'], key, attrs[key] or '<start of body>',
                                          (' until ' + attrs['until']) if 'until' in attrs else (' (balanced block)' if 'balanced' in attrs else ''))
            ident = ident.replace('\n', '\\n')
            hashes[ident] = sha
            changes = ['statement range wrapped in a function whose parameters are its free variables']
            header = None
            specs = []
            loops = {}
            before_loop = {}
            after_loop = {}
            substs = []
            before_text = []
            lsubsts = []
            tail = []
            head_ins = []
            for d in directives:
                m = re.match(r'^//@\s+header:\s?(.*)$', d)
                if m:
                    header = m.group(1)
                    continue
                m = re.match(r'^//@\s+spec:\s?(.*)$', d)
                if m:
                    specs.append(m.group(1))
                    continue
                m = re.match(r'^//@\s+loop (\d+):\s?(.*)$', d)
                if m:
                    loops.setdefault(int(m.group(1)), []).append(m.group(2))
                    continue
                m = re.match(r'^//@\s+before-loop (\d+):\s?(.*)$', d)
                if m:
                    before_loop.setdefault(int(m.group(1)), []).append(m.group(2))
                    continue
                m = re.match(r'^//@\s+after-loop (\d+):\s?(.*)$', d)
                if m:
                    after_loop.setdefault(int(m.group(1)), []).append(m.group(2))
                    continue
                m = re.match(r'^//@\s+resubst:\s?(.*?) => (.*)$', d)
                if m:
                    substs.append((re.compile(m.group(1)), m.group(2)))
                    continue
                m = re.match(r'^//@\s+before-text "(.*?)":\s?(.*)$', d)
                if m:
                    before_text.append((m.group(1), m.group(2)))
                    continue
                m = re.match(r'^//@\s+subst:\s?(.*?) => (.*)$', d)
                if m:
                    lsubsts.append((m.group(1).replace('\\n', '\n'), m.group(2).replace('\\n', '\n')))
                    continue
                m = re.match(r'^//@\s+tail:\s?(.*)$', d)
                if m:
                    tail.append(m.group(1))
                    continue
                m = re.match(r'^//@\s+head:\s?(.*)$', d)
                if m:
                    head_ins.append(m.group(1))
                    continue
                if d.strip() == '//@':
                    continue
                raise ExtractError('bad directive: ' + d)
            for a, b in lsubsts:
                if a not in body:
                    raise ExtractError('%s: subst source text %r not found (code changed?)' % (ident, a))
                body = body.replace(a, b)
                changes.append('subst %r => %r' % (a, b))
            if head_ins:
                body = ' '.join(head_ins) + '\n        ' + body
                changes.append('wrapped: text %r put in front of the range' % ' '.join(head_ins))
            if tail:
                body = body.rstrip() + '\n        ' + '\n        '.join(tail) + '\n'
                changes.append('appended result expression: %s' % ' '.join(tail))
            for anchor, ghost in before_text:
                p = body.find(anchor)
                if p < 0:
                    raise ExtractError('%s: anchor text %r not found (code changed?)' % (ident, anchor))
                body = body[:p] + ghost + '\n            ' + body[p:]
                changes.append('before %r: inserted ghost line %r' % (anchor, ghost))
            lh = loop_headers(body)
            # collect insertions (position, text), apply from the back
            ins = []
            for k, cl in loops.items():
                if k > len(lh):
                    raise ExtractError('%s: loop %d not found' % (ident, k))
                ins.append((lh[k - 1], '\n' + '\n'.join('            ' + c for c in cl) + '\n        '))
                changes.append('loop %d: inserted %d invariant/decreases line(s)' % (k, len(cl)))
            for k, cl in before_loop.items():
                if k > len(lh):
                    raise ExtractError('%s: loop %d not found' % (ident, k))
                # start of the loop statement = the keyword before the brace
                kw = max(body.rfind('while', 0, lh[k - 1]), body.rfind('for ', 0, lh[k - 1]), body.rfind('loop', 0, lh[k - 1]))
                ins.append((kw, '\n'.join(cl) + '\n        '))
                changes.append('before loop %d: inserted %d ghost line(s)' % (k, len(cl)))
            for k, cl in after_loop.items():
                if k > len(lh):
                    raise ExtractError('%s: loop %d not found' % (ident, k))
                cb = match_brace(body, lh[k - 1])
                ins.append((cb + 1, '\n        ' + '\n        '.join(cl)))
                changes.append('after loop %d: inserted %d ghost line(s)' % (k, len(cl)))
            for p, t in sorted(ins, reverse=True):
                body = body[:p] + t + body[p:]
            for a, b in substs:
                body, n = a.subn(b, body)
                if n:
                    changes.append('regex rewrite %r => %r (%d place(s))' % (a.pattern, b, n))
            text = header + '\n' + '\n'.join('    ' + c for c in specs) + '\n{' + body + '}\n'
            out.append('// ---- extracted from %s (sha256 %s) ----' % (ident, sha[:16]))
            out.append(text)
            out.append('// ---- end of extract ----')
            report.append({'item': ident, 'sha256': sha, 'rewrites': changes})
            i += 1
            continue
        out.append(ln)
        i += 1
    return '\n'.join(out), report, hashes


if __name__ == '__main__':
    tmpl, repo = sys.argv[1], sys.argv[2]
    try:
        text, report, _ = process_template(open(tmpl).read(), repo)
    except ExtractError as e:
        print('EXTRACT ERROR:', e, file=sys.stderr)
        sys.exit(2)
    sys.stdout.write(text)
    for r in report:
        print('// extracted %s: %s' % (r['item'], '; '.join(r['rewrites']) or 'verbatim'), file=sys.stderr)
