#!/usr/bin/env python3
"""MANIFEST.setup_cmd: offline sanity check of the tool chain and registry.
Nothing is downloaded or built ahead of time: every check rebuilds what it
needs from /repo's working tree."""
import shutil
import subprocess
import sys
import os
sys.path.insert(0, os.path.dirname(os.path.abspath(__file__)))
import registry

ok = True
for tool in ('cargo-kani', 'verus', 'cbmc', 'rsync'):
    if not shutil.which(tool):
        print('missing tool:', tool)
        ok = False
hs = registry.discover()
print('%d proof harnesses registered in %d files' % (len(hs), len(set(h['file'] for h in hs))))
os.makedirs('/var/tmp/rsass-verif', exist_ok=True)
sys.exit(0 if ok else 1)
