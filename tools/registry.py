"""Registry of units under contract: which harness file holds which unit, the
real functions it puts under contract, and per-harness attributes (bounded,
attempt, tier, timeout).  Harness names are discovered by scanning
/verif/kani/*.rs; the property a harness serves is its name prefix
(c01_ -> C01), plus the extra properties listed here."""
import os
import re

KANI_DIR = os.path.join(os.path.dirname(os.path.dirname(os.path.abspath(__file__))), 'kani')

# harness file -> (module path of the mount point, source file in /repo, functions under contract)
FILES = {
    'format.rs': dict(module='output::format::kani_verif', src='rsass/src/output/format.rs',
                      unit='U-indent', functions=['Format::get_indent']),
    'cssbuf.rs': dict(module='output::cssbuf::kani_verif', src='rsass/src/output/cssbuf.rs',
                      unit='U-cssbuf', functions=['CssBuf::start_block', 'CssBuf::end_block', 'CssBuf::pop_nl',
                                                  'CssBuf::opt_nl', 'CssBuf::add_one', 'CssBuf::do_indent',
                                                  'CssBuf::do_indent_no_nl']),
    'number.rs': dict(module='value::number::kani_verif', src='rsass/src/value/number.rs',
                      unit='U-number', functions=['<Number as PartialEq>::eq', '<Number as PartialOrd>::partial_cmp',
                                                  'Number::into_integer']),
    'rgba.rs': dict(module='value::colors::rgba::kani_verif', src='rsass/src/value/colors/rgba.rs',
                    unit='U-rgba', functions=['cap', 'cmp_chan', 'Rgba::new', 'Rgba::from_rgb', 'Rgba::from_rgba',
                                              'Rgba::set_alpha', '<Rgba as PartialEq>::eq', '<Rgba as Ord>::cmp',
                                              'Rgba::to_bytes', 'Rgba::try_bytes', 'Rgba::invert']),
    'hsla.rs': dict(module='value::colors::hsla::kani_verif', src='rsass/src/value/colors/hsla.rs',
                    unit='U-hsla', functions=['Hsla::new', 'Hsla::set_alpha', 'Hsla::invert']),  # deg_mod: assumed contract only
    'hwba.rs': dict(module='value::colors::hwba::kani_verif', src='rsass/src/value/colors/hwba.rs',
                    unit='U-hwba', functions=['Hwba::new', 'Hwba::set_alpha']),
    'convert.rs': dict(module='value::colors::convert::kani_verif', src='rsass/src/value/colors/convert.rs',
                       unit='U-color-conv', functions=['max_min_largest', '<Hsla as From<&Rgba>>::from',
                                                       '<Rgba as From<&Hsla>>::from', '<Hwba as From<&Rgba>>::from',
                                                       '<Hsla as From<&Hwba>>::from']),
    'colors.rs': dict(module='value::colors::kani_verif', src='rsass/src/value/colors/mod.rs',
                      unit='U-color', functions=['<Color as Ord>::cmp', '<Color as PartialEq>::eq', 'cmp_hsla',
                                                 'Color::set_alpha', 'Color::rotate_hue', 'Color::invert']),
    'range.rs': dict(module='value::range::kani_verif', src='rsass/src/value/range.rs',
                     unit='U-range', functions=['ValueRange::new']),
    'unit.rs': dict(module='value::unit::kani_verif', src='rsass/src/value/unit.rs',
                    unit='U-unit-table', functions=['Unit::scale_to', 'Unit::scale_factor', 'Unit::dimension']),
    'unitset.rs': dict(module='value::unitset::kani_verif', src='rsass/src/value/unitset.rs',
                       unit='U-unitset', functions=['<&UnitSet as Mul>::mul', '<&UnitSet as Div>::div',
                                                    'UnitSet::scale_to_unit', 'UnitSet::is_none', 'UnitSet::simplify']),
    'numeric.rs': dict(module='value::numeric::kani_verif', src='rsass/src/value/numeric.rs',
                       unit='U-numeric', functions=['<Numeric as PartialOrd>::partial_cmp', '<Numeric as PartialEq>::eq',
                                                    'Numeric::as_unit', 'Numeric::as_unitset']),
    'operator.rs': dict(module='value::operator::kani_verif', src='rsass/src/value/operator.rs',
                        unit='U-operator', functions=['Operator::eval']),
    'value.rs': dict(module='css::value::kani_verif', src='rsass/src/css/value.rs',
                     unit='U-value', functions=['css::Value::is_true', '<css::Value as PartialEq>::eq']),
    'ordermap.rs': dict(module='ordermap::kani_verif', src='rsass/src/ordermap.rs',
                        unit='U-ordermap', functions=['OrderMap::insert', 'OrderMap::get', 'OrderMap::get_mut',
                                                      'OrderMap::remove', 'OrderMap::contains_key', 'OrderMap::len',
                                                      '<OrderMap as PartialEq>::eq']),
    'opt.rs': dict(module='css::selectors::opt::kani_verif', src='rsass/src/css/selectors/opt.rs',
                   unit='U-opt', functions=['Opt::collect_pos', 'Opt::collect_neg', 'Opt::map']),
    'list.rs': dict(module='sass::functions::list::kani_verif', src='rsass/src/sass/functions/list.rs',
                    unit='U-index', functions=['index_of', 'get_list',
                                               'list.join / list.append (separator and bracket choice; extracted ranges of the closures)',
                                               'list.zip (length; extracted range of the closure)']),
    'evalops.rs': dict(module='sass::value::kani_verif', src='rsass/src/sass/value.rs',
                       unit='U-evalops', functions=['sass::Value::do_evaluate (unary-operator match, extracted range)',
                                                    'sass::BinOp::eval (and/or branches, extracted range)',
                                                    'sass::Value::do_evaluate (map-literal arm: duplicate-key check, extracted range)',
                                                    'sass::Value::do_evaluate (inline if() function, extracted range)']),
    'strfns_arith.rs': dict(module='sass::functions::string::kani_verif_arith', src='rsass/src/sass/functions/string.rs',
                            unit='U-strfns', functions=['string.slice (index arithmetic: start, end, count; extracted ranges of the closure)',
                                                        'string.insert (index arithmetic; extracted range of the closure)']),
    'strfns.rs': dict(module='sass::functions::string::kani_verif', src='rsass/src/sass/functions/string.rs',
                      unit='U-strfns', functions=['string.slice / insert / index / length / to-upper-case / to-lower-case (complete closure bodies, extracted ranges)']),
    'colorfns.rs': dict(module='sass::functions::color::hsl::kani_verif', src='rsass/src/sass/functions/color/hsl.rs',
                        unit='U-colorfns', functions=['color.lighten / darken / saturate / desaturate / grayscale / complement (channel arithmetic; extracted ranges of the closures)']),
    'cssdata.rs': dict(module='output::cssdata::kani_verif', src='rsass/src/output/cssdata.rs',
                       unit='U-buffer-tail-k', functions=['CssData::into_buffer (tail: charset/BOM marker, newline trimming; extracted range)']),
    'mathfns.rs': dict(module='sass::functions::math::kani_verif', src='rsass/src/sass/functions/math.rs',
                       unit='U-mathfns', functions=['math.ceil / floor / percentage (closures, extracted ranges)', 'math::round::sass_round (extracted range)',
                                                    'math::find_extreme (min / max fold)', 'math::cmp2']),
    'sel_compound.rs': dict(module='css::selectors::compound::kani_verif', src='rsass/src/css/selectors/compound.rs',
                            unit='U-selectors', functions=['CompoundSelector::no_placeholder']),
    'sel_pseudo.rs': dict(module='css::selectors::pseudo::kani_verif', src='rsass/src/css/selectors/pseudo.rs',
                          unit='U-selectors', functions=['Pseudo::no_placeholder']),
    'sel_selector.rs': dict(module='css::selectors::selector::kani_verif', src='rsass/src/css/selectors/selector.rs',
                            unit='U-selectors', functions=['Selector::no_placeholder', 'SelectorSet::no_placeholder', 'Pseudo::no_placeholder',
                                                           'CompoundSelector::no_placeholder']),
    'formalargs.rs': dict(module='sass::formal_args::kani_verif', src='rsass/src/sass/formal_args.rs',
                          unit='U-formalargs', functions=['FormalArgs::eval (body, extracted range; sub-scope and default evaluation replaced by a recording binder)',
                                                          'sass::CallArgs::evaluate (forwarded-arglist arm, extracted range)',
                                                          'css::CallArgs::take_positional', 'css::CallArgs::only_named', 'css::CallArgs::check_no_named',
                                                          'sass::Name (- / _ equivalence)']),
    'transformfns.rs': dict(module='output::transform::kani_verif', src='rsass/src/output/transform.rs',
                            unit='U-controlflow', functions=['output::transform::handle_item (@if arm, @while arm, comment arm; extracted ranges)']),
    'scopefns.rs': dict(module='variablescope::kani_verif', src='rsass/src/variablescope.rs',
                        unit='U-controlflow', functions=['Scope::define_multi (@each destructuring; extracted range)',
                                                         'ScopeRef::eval_body (@if arm; extracted range)',
                                                         'ScopeRef::eval_body (@while arm; extracted range)',
                                                         'Scope::set_variable (flag logic; extracted range)']),
    'colorfns_rgb.rs': dict(module='sass::functions::color::rgb::kani_verif', src='rsass/src/sass/functions/color/rgb.rs',
                            unit='U-colorfns', functions=['color.mix (complete closure body, extracted range)']),
    'colorfns_other.rs': dict(module='sass::functions::color::other::kani_verif', src='rsass/src/sass/functions/color/other.rs',
                              unit='U-colorfns', functions=['color.opacify / fade-in, transparentize / fade-out (complete closure bodies, extracted ranges)']),
    'cssstring.rs': dict(module='css::string::kani_verif', src='rsass/src/css/string.rs',
                         unit='U-escape', functions=['CssString::unquote (digit accumulation of an escape; extracted range)']),
    'mapfns.rs': dict(module='sass::functions::map::kani_verif', src='rsass/src/sass/functions/map.rs',
                      unit='U-mapfns', functions=['map::do_merge (worker of map.merge; extracted, instantiated at a mock value type)']),
    'comment.rs': dict(module='css::comment::kani_verif', src='rsass/src/css/comment.rs',
                       unit='U-comment', functions=['Comment::write']),
}

# file-level default: is a passing harness a complete (unbounded) proof?
BOUNDED_FILES = {
    'cssbuf.rs': 'buffer prefix <= 4 bytes (the functions read only the last 2 bytes); style concrete per harness',
    'unitset.rs': 'left operand of at most 2 unit entries, right operand 1; units concrete, exponents symbolic',
    'ordermap.rs': 'maps of at most 3 entries; key type u8 with == modulo 4',
    'opt.rs': 'sequences of at most 4 items, payload type u8',
    'value.rs': 'one representative payload per non-recursive constructor (no nested Value)',
    'mapfns.rs': 'concrete maps of at most 3 entries (one nested map of 2) at a mock value type (atoms, null, nested maps)',
    'comment.rs': 'three concrete comment texts (single line, multi-line indented deeper than its block), two styles',
    'transformfns.rs': 'eight representative condition values; @while: at most 3 iterations',
    'scopefns.rs': 'at most three variables and two-element list values; six representative condition values',
    'formalargs.rs': 'eleven concrete call shapes (at most 2 parameters + rest, at most 3 arguments)',
    'sel_compound.rs': 'concrete compound selectors with at most one placeholder / class / id',
    'sel_pseudo.rs': 'constructors only',
    'sel_selector.rs': 'level harnesses: see their own entry; others: concrete selector structures: lists of at most 3 complex selectors, one combinator, one pseudo-class with a selector argument',
    'cssdata.rs': 'buffers of 0..=3 bytes (one harness per length and style)',
    'evalops.rs': 'one representative payload per value constructor without a nested Value (12 of 17 kinds); scalar payloads symbolic',
}

# One timeout for every quick harness (=> one `cargo kani` invocation per
# check).  The slowest quick harness on the unchanged tree takes ~250 s under
# full parallel load; everything that needed more was moved to the thorough
# tier.  A harness that still hits the limit is reported NOT-DECIDED.
QUICK_TIMEOUT = 900

# per-harness overrides (matched by regex on the short harness name)
OVERRIDES = [
    # (regex, dict)
    (r'^c01_long_indent_contract_sampled$', dict(bounded='concrete lengths 81, 82, 128, 160')),
    (r'^c01_long_indent_contract_enumerated$', dict(bounded='every concrete length 81..=160', tier='thorough', timeout=1800,
                                                      kind='attempt')),  # measured: CBMC runs out of memory (10 GB) after ~7 min
    (r'^c01_get_indent_contract$', dict(bounded='len <= 160; modular in long_indent, whose contract is checked for four sampled lengths only')),
    (r'^c28_get_list_shape$', dict(bounded='lists of at most 2 elements', functions=['get_list'])),
    (r'^c28_index_of$', dict(functions=['index_of'])),
    (r'^c16_(plain|global|default)_', dict(functions=['Scope::set_variable (flag logic after the module case; extracted range, scope state replaced by a probe)'],
                                     bounded=None)),
    (r'^c26_(slice_(whole|first|negative|empty|zero|far)|insert_(at|after|past|zero|minus|far|into)|index_first|length_counts|case_functions)', dict(bounded='the concrete string "äbc" (and four other literals), seven concrete index pairs / indices',
        functions=['string.slice / insert / index / length (complete closure bodies, extracted ranges)'])),
    (r'^c29_number_', dict(functions=['Number::ceil', 'Number::floor', 'Number::round', 'Number::abs', 'Number::trunc'])),
    (r'^c29_unitless_check_all', dict(bounded=None, functions=['math::unitless', 'functions::check::unitless (complete bodies, extracted; Value / Numeric / Number instantiated at a double with a unit tag; error text dropped)'])),
    (r'^c29_clamp_(all_doubles|rejects)', dict(bounded=None, functions=['math.clamp (complete closure body, extracted range; Numeric / Value instantiated at a double with a unit tag)'])),
    (r'^c29_clamp_returns_', dict(bounded='four concrete (min, number, max) triples in px', functions=['math.clamp (complete closure body, extracted range)'],
                          kind='attempt', tier='thorough', timeout=2400)),  # measured: > 900 s (UnitSet::is_compatible builds BTreeMaps)
    (r'^c29_percentage', dict(bounded='four probe values')),
    (r'^c29_(ceil|floor|round)_keeps_unit', dict(bounded='three probe values (2.5, -2.5, 7); the primitives are complete in number.rs')),
    (r'^c29_unitless_(accepts|rejects)_', dict(bounded='four concrete units (none, %, fr, px), one harness each', functions=['math::unitless (argument check of pow / sqrt / log / exp)'])),
    (r'^c29_min_max_', dict(bounded='three / two concrete arguments (90px, 1in, 95px; 2, 3; 1px, 1s)')),
    (r'^c36_(expanded|compressed)_', dict(bounded=None, functions=['output::transform::handle_item (Item::Comment arm; extracted range)'])),
    (r'^c16_(rule|media|atrule|keyframes|for|while|each)_', dict(functions=['output::transform::handle_item (arms Item::Rule, Item::AtMedia, Item::AtRule, Item::For, Item::While, Item::Each; extracted ranges run against recording stand-ins for ScopeRef / handle_body / check_body)'],
        bounded='two loop values / two truthy conditions; which scope each statement uses is independent of the values')),
    (r'^c16_each_save_and_restore', dict(functions=['Scope::store_local_values', 'Scope::restore_local_values', 'Scope::get_local_or_none (complete bodies, extracted; variable table instantiated at a four-slot u8 table)'],
        bounded='three names, one enclosing scope; values symbolic')),
    (r'^c36_(used|forwarded)_module_', dict(functions=['output::transform::handle_item (module-loading closures of the Item::Use and Item::Forward arms; extracted ranges run against recording stand-ins)'],
        bounded='one configured variable')),
    (r'^c13_(get_and_has_key_|get_with_empty_rest|get_follows|has_key_follows|get_further)', dict(functions=['sass::functions::map::find_value (complete item, extracted)', 'map.get / map.has-key closures (complete bodies, extracted; value type instantiated at atoms + nested maps behind references)'],
        bounded='one three-entry map with a nested two-entry map; keys as rest arguments (with / without trailing comma), list, single value')),
    (r'^c13_(get_with_empty_rest|get_follows|has_key_follows|get_further)', dict(kind='attempt', tier='thorough', timeout=2400)),  # measured: > 11 min each (any lookup whose further keys come as a rest-argument list or a list, even an empty one)
    (r'^c22_level_', dict(functions=['SelectorSet::no_placeholder', 'Selector::no_placeholder', 'Selector::is_local_empty', 'CompoundSelector::no_placeholder', 'Pseudo::no_placeholder', 'Pseudo::name_in', 'pseudo::name_in (complete bodies, extracted unchanged; the type one level down is a stand-in whose no_placeholder result is chosen by the harness)'],
        bounded='lists of three complex selectors / two pseudo selectors, every combination of callee results (removed / matches anything / kept); pseudo names not, is, where, slotted, hover')),
    (r'^c11_unitset_scale_to_general_branch', dict(functions=['UnitSet::scale_to (complete body, extracted unchanged; Unit / UnitSet / Div / powi are stand-ins)'],
        bounded='one pair of two-unit sets, both directions, plus one dimension mismatch')),
    (r'^c07_declaration_value_', dict(functions=['css::Property::write (complete body, extracted unchanged, on the real CssBuf; the value is a stand-in rendering to a fixed text with a line break)'],
        bounded='one rendered text ("a\\nb"), three value kinds, both styles')),
    (r'^c16_assignment_updates', dict(functions=['Scope::set_variable (flag logic after the module case; extracted range)'], bounded=None)),
    (r'^c17_for_end_unit', dict(functions=['sass::SrcRange::evaluate (unit conversion of the end value, extracted range)'],
                                bounded='seven concrete (value, unit, unit) triples')),
    (r'^c13_valuemap_', dict(functions=['OrderMap<css::Value, css::Value>::{get, contains_key, insert, remove} (the instantiation map.get/has-key/set/remove use)'],
                             bounded='maps of one or two entries with concrete keys (1in / 96px / 95px, true, null)')),
    (r'^c13_map_literal_', dict(bounded='three-entry literals; key type instantiated at u8 classes modulo 4 instead of css::Value')),
    # measured: > 6 GB and > 8 min each (css::Value == and drop glue inside OrderMap): thorough-tier attempts
    (r'^c13_valuemap_', dict(kind='attempt', tier='thorough', timeout=1800)),
    (r'^c28_zip_truncates', dict(bounded='three lists of at most 3 elements')),
    (r'^c28_index_(in_map|whole_body)', dict(bounded='concrete two-entry map / three-element list at a mock value type with the constructors the closure uses')),
    (r'^c28_index_first_position', dict(bounded='lists of at most 4 elements; element type instantiated at u8')),
    (r'^c28_(join_concatenates|join_empty|append_adds|set_nth_changes)', dict(bounded='lists of 0-3 elements; element type instantiated at u8')),
    (r'^c28_separator_name|^c28_join_bracketed', dict(bounded='one representative value per kind')),
    (r'^c01_number_into_integer$', dict(functions=['Number::into_integer'])),
    (r'^c01_number_display_fraction_bound$', dict(functions=['Number (fraction digit bound used by Display)'])),
    (r'^c12_number_', dict(functions=['<Number as PartialEq>::eq', '<Number as PartialOrd>::partial_cmp'])),
    (r'^c01_cmp_chan|^c12_cmp_chan', dict(functions=['cmp_chan'])),
    (r'^c31_cap_contract$', dict(functions=['cap'])),
    (r'^c31_deg_mod_contract$', dict(functions=['colors::hsla::deg_mod (body extracted each run; `%` by its assumed IEEE contract)'])),
    (r'^c31_max_min_largest_contract$', dict(functions=['max_min_largest'])),
    (r'^c01_get_indent_contract$', dict(functions=['Format::get_indent'])),
    (r'^c01_long_indent_contract', dict(functions=['format::long_indent'])),
    (r'^c13_ordermap_(insert|remove|eq_order_insensitive|eq_detects_difference)_n\d', dict(bounded='one harness per concrete map size 0..=3 (and per key permutation for ==); key type u8 with == modulo 4')),
    # Operator::eval takes two css::Value by value: the drop glue of every
    # constructor and the format! arms make CBMC exceed 300 s / 10 GB for
    # every one of these (never completed so far).  They are kept as
    # thorough-tier ATTEMPTS: run, reported, never counted as proved.
    (r'^c14_operator_and_or_', dict(bounded='left operand one representative per value kind; right operand true / null / number',
                                    kind='attempt', tier='thorough', timeout=900)),
    (r'^c11_operator_(plus|minus)_', dict(bounded='11 representative ordered unit pairs; right magnitude 3; left magnitude all finite doubles up to 1e9',
                                          kind='attempt', tier='thorough', timeout=900)),
    (r'^c11_(plus|minus)_arm_', dict(bounded='11 representative ordered unit pairs; right magnitude 3; left magnitude all finite doubles up to 1e9',
                                     functions=['Operator::eval (numeric arm of + and of -, extracted ranges)'])),
    (r'^c14_and_or_arm_', dict(bounded='left operand one representative per value kind; right operand true / null / number',
                               functions=['Operator::eval (and / or arms, extracted ranges)'])),
    (r'^c12_operator_cmp', dict(bounded='unit px only', kind='attempt', tier='thorough', timeout=900)),
    (r'^c29_unitless_rejects_', dict(kind='attempt', tier='thorough', timeout=2400)),  # measured: > 900 s (error path builds the message through core::fmt)
    (r'^c36_comment_write_compressed_', dict(kind='attempt', tier='thorough', timeout=2400)),  # measured: > 900 s (str::lines / str::replace machinery)
    (r'^c13_merge_order_and_values$', dict(kind='attempt', tier='thorough', timeout=2400)),  # measured: > 900 s (recursive value type)
    (r'^c18_named_in_any_order$', dict(kind='attempt', tier='thorough', timeout=2400)),  # measured: runs out of memory (two removals from OrderMap<Name, _>)
    (r'^c11_unitset_scale_to_power_of_unit_is_none$', dict(kind='attempt', tier='thorough', timeout=2400)),  # measured: > 900 s (BTreeMap in UnitSet::dimension)
    (r'^c11_numeric_cmp_', dict(bounded='13 representative ordered unit pairs, probe magnitudes 1 and 3')),
    (r'^c11_numeric_unitless_vs_percent', dict(bounded='concrete probe values')),
    (r'^c31_roundtrip_', dict(kind='attempt', tier='thorough', timeout=1800)),
    (r'^c31_rgba_to_hwba_in_range$', dict(kind='attempt', tier='thorough', timeout=1800)),
    (r'^c31_hsla_to_hwba_probe$', dict(bounded='two concrete probe colors')),
    (r'^c31_hsla_to_hwba_in_range$', dict(kind='attempt', tier='thorough', timeout=1800)),  # measured: > 900 s
    (r'^c31_rgba_grey_to_hsla$', dict(kind='attempt', tier='thorough', timeout=1800)),
    (r'^c31_hwba_new_in_range$', dict(kind='attempt', tier='thorough', timeout=1800)),
    # did not finish in 300 s on the unchanged tree (measured twice, -j 12/14):
    # thorough-tier attempts, reported but never counted as proved
    (r'^c12_color_hsla_cmp_antisymmetric$', dict(kind='attempt', tier='thorough', timeout=1800)),
    (r'^c32_mix_with_itself_is_identity(_w30)?$', dict(kind='attempt', tier='thorough', timeout=2400)),  # measured: > 900 s
    (r'^c32_mix_weight_is_share', dict(bounded='opaque rgb-form colors (alpha 1), all channel values')),
    (r'^c32_(opacify|transparentize)', dict(bounded='rgb-form colors, all channel, alpha and amount values')),
    (r'^c32_mix_with_itself_is_identity_w50', dict(bounded='weight 50% only (other weights: thorough-tier attempts), all channel values')),
    # the recursive selector structures (derived clone / == / drop through Box and Vec): > 15 min and > 5 GB each
    (r'^c22_(selector_|pseudo_is|pseudo_not|pseudo_other|compound_not_)', dict(kind='attempt', tier='thorough', timeout=2400)),
    (r'^c12_color_hwba_hsla_eq_symmetric_probe$', dict(bounded='two concrete probe pairs')),
    (r'^c12_color_(hwba|rgba)_hsla_eq_symmetric$', dict(kind='attempt', tier='thorough', timeout=1800)),  # measured: > 900 s
    (r'^c12_number_trichotomy$', dict(kind='attempt', tier='thorough', timeout=1800)),
    (r'^c12_value_eq_color_color$', dict(kind='attempt', tier='thorough', timeout=1800)),
    (r'^c28_get_list_shape$', dict(kind='attempt', tier='thorough', timeout=1800)),
]

# harnesses whose obligation also carries another property
EXTRA_PROPS = [
    (r'^c12_rgba_|^c12_cmp_chan|^c12_color_', ['C31']),
    (r'^c01_cmp_chan|^c01_color_cmp', ['C12']),
    (r'^c01_get_indent|^c01_cssbuf|^c01_long_indent', ['C07']),
    (r'^c36_comment_write_compressed', ['C07']),
    (r'^c07_into_buffer_tail', ['C01']),
    (r'^c28_index_of$', ['C01']),
    (r'^c26_(slice_(whole|first|negative|empty|zero|far)|insert_(at|after|past|zero|minus|far|into)|index_first|length_counts)', ['C01']),
    (r'^c01_range_new', ['C17']),
    (r'^c31_color_set_alpha|^c31_.*set_alpha', ['C32']),
    (r'^c01_number_into_integer', ['C28', 'C17']),
    (r'^c12_number_', ['C11']),
    (r'^c31_max_min_largest|^c31_rgba_to_hsla|^c31_hsla_to_rgba', ['C32']),
    (r'^c31_deg_mod_contract', ['C32', 'C01', 'C12']),
]

# assumptions specific to a harness file (stubs = assumed contracts), merged
# into the evidence of every property the file serves
DEG_MOD = ('deg_mod call sites see kani_verif::deg_mod_by_contract instead of the body (CBMC 6.11 does not model f64 %); that contract is '
           'PROVED for the real body (text extracted each run) by c31_deg_mod_contract for all doubles, modulo one ASSUMED, UNCHECKED contract: '
           'f64 % 360.0 is IEEE fmod (exact; sign of the dividend; magnitude below 360; v itself when |v| < 360; v -/+ 360 when 360 <= |v| < 720)')
SNIP = ('K-snippet: the verified text is a statement range cut out of /repo\'s current source on every run and wrapped in a function of its '
        'free variables (hash and substitutions under coverage.extracted_snippets); dropped: the surrounding closure / match arm. ')
FILE_ASSUMPTIONS = {
    'evalops.rs': [SNIP + 'Operand evaluation (do_evaluate) is replaced by a probe that returns a harness-chosen value and records the call; '
                   'BinOp::eval\'s error type is instantiated at (); the map-literal arm is instantiated at a u8 key type with == modulo 4 and a local Error stand-in'],
    'strfns.rs': [SNIP + 'Argument fetches are replaced: s.get(name!(x))? -> the real TryFrom<Value> conversion applied to a harness value, s.get_map(name!(x), check::unitless_int)? -> an i64 parameter'],
    'strfns_arith.rs': [SNIP + 'Argument fetches (s.get / s.get_map) are replaced by parameters'],
    'mathfns.rs': [SNIP + 'Argument fetches (s.get / s.get_map) are replaced by parameters',
                   'clamp / unitless harnesses: inside `mod clampmock` / `mod unitlessmock` the names Numeric, Number, UnitSet, Value, CallError, diff_units_msg and expected_to are stand-ins (a double with a unit tag compared by value when the tags are compatible; `%` and `fr` have a unit but no dimension; error TEXT dropped) — that the real Numeric comparison / UnitSet::is_none behave like this is under contract in numeric.rs / unitset.rs, not here'],
    'transformfns.rs': [SNIP + 'Condition evaluation, body execution, the scope\'s format and the destination are replaced by probes that return harness-chosen values and count calls',
        'scope-shape harnesses (C16): inside `mod scopeshape` the names ScopeRef, SelectorCtx, handle_body and check_body are recording stand-ins, so the extracted arms are checked for WHICH scope they create and pass on; that Scope::sub / define / store_local_values / restore_local_values do what their names say is not proved here'],
    'scopefns.rs': [SNIP + 'self.define / the scope\'s variable map / define_global / get_or_none / eval_body are replaced by recording probes; '
                    'define_multi is instantiated at element type u8 (iter_items -> a Vec<u8>)',
                    'save/restore harness (C16): `variables` is a four-slot u8 table behind a RefCell instead of Mutex<BTreeMap<Name, Value>>, the parent scope a reference; the three method bodies are the real text'],
    'formalargs.rs': [SNIP + 'css::CallArgs is instantiated at a two-variant value type V (bodies of its methods extracted as well, OrderMap real); the sub-scope is a recording binder; '
                      'FormalArgs\' two fields are parameters with the default type instantiated at u8; ArgsError and Invalid are local stand-ins with the constructors the ranges use'],
    'mapfns.rs': [SNIP + 'css::Value is replaced by a mock enum with the constructors the functions use (Atom, Map); OrderMap is the real generic one',
                  'lookup harnesses: the value type holds nested maps and key lists behind references and compares them by identity (no harness uses a map or list as a key); CallError is a unit stand-in; argument fetches are replaced by parameters'],
    'cssdata.rs': [SNIP + 'The (never constructed) error type of the result is ()'],
    'cssstring.rs': [SNIP + 'Only the accumulation step of CssString::unquote; the character iterator is a probe; checked for every u32 accumulator value (inductive step)'],
    'colorfns.rs': [DEG_MOD, SNIP + 'Argument fetches are replaced by parameters'],
    'colorfns_rgb.rs': [DEG_MOD, SNIP + 'Argument fetches are replaced by parameters (the weight as the fraction the real check lets through)'],
    'colorfns_other.rs': [SNIP + 'Argument fetches are replaced by parameters (the amount as the fraction the real check lets through)'],
    'colors.rs': [DEG_MOD], 'convert.rs': [DEG_MOD], 'hsla.rs': [DEG_MOD], 'hwba.rs': [DEG_MOD],
    'list.rs': ['std::fmt::format stubbed to return an empty String in c28_index_of (error TEXT unchecked, error PRESENCE checked)',
                SNIP + 'join / append / set-nth / index are instantiated at element type u8 (get_list -> destructuring of the harness list type, Value::List -> its constructor, '
                'list.index\'s result wrapping -> Option<usize>); argument fetches are parameters'],
    'unitset.rs': [SNIP + 'UnitSet::scale_to: the head (which branch is taken) on the real types with the compound branch cut off and replaced by a marker; the complete body, general branch included, in `mod general_branch` against stand-ins: Div for &UnitSet lists self\'s units and other\'s with negated exponents, dimension() is a count, powi is exact for -2..2 — that the real Div / dimension() / f64::powi behave accordingly is NOT proved'],
    'sel_selector.rs': [SNIP + 'level harnesses (`mod levels`): each no_placeholder body is checked against a stand-in for the type one level down that returns every Opt case; the structural induction that composes the four levels on a real nested selector is not machine-checked'],
    'operator.rs': [SNIP + 'only the numeric arms of + and - and the and / or arms of Operator::eval are extracted'],
    'range.rs': [SNIP + 'Invalid is a local stand-in with the one constructor the range uses (the real one formats an error text); std::fmt::format stubbed'],
    'cssbuf.rs': ['format::long_indent replaced at CssBuf call sites by its contract (long_indent_by_contract); the contract itself is '
                  'checked by c01_long_indent_contract_sampled for the lengths 81, 82, 128, 160 only (the enumerated 81..=160 variant is a thorough-tier attempt that runs out of memory)'],
    'format.rs': ['format::long_indent replaced in c01_get_indent_contract by its contract; see c01_long_indent_contract_*'],
}

_h_re = re.compile(r'^\s*fn\s+((?:c\d\d|cover|canary)_[A-Za-z0-9_]+)\s*\(\s*\)', re.M)
_per_style_re = re.compile(r'^per_style!\((\w+),\s*(\w+),\s*(\w+),\s*(\w+)\);', re.M)
_target_re = re.compile(r'^(?:target|left|pair|per_tag|per_kind|and_or|map_lit|arm_kind|index_case|if_case|fn_if_case|while_case|tail_case|slice_at|insert_at|flags_case|unitless_case|if_fn)!\((\w+),', re.M)
_shape_re = re.compile(r'^shape!\((\w+),\s*(\w+),', re.M)
_pair2_re = re.compile(r'^(?:arm_)?pair!\((c11_\w+),\s*(c11_\w+),', re.M)
_mac_re = re.compile(r'^(?:per_\w+|gen_\w+)!\(([^;]*)\);', re.M)


def discover(kani_dir=KANI_DIR):
    """-> list of dicts(short, full, file, unit, props, kind, tier, complete, bounded, timeout, functions)"""
    out = []
    for fn in sorted(os.listdir(kani_dir)):
        if not fn.endswith('.rs'):
            continue
        if fn not in FILES:
            raise SystemExit('registry: harness file %s is not registered' % fn)
        text = open(os.path.join(kani_dir, fn)).read()
        names = []
        # plain harnesses: fn preceded (within 4 lines) by a #[kani::proof...] attribute
        lines = text.splitlines()
        for i, ln in enumerate(lines):
            m = re.match(r'^\s*fn\s+((?:c\d\d|cover|canary)_[A-Za-z0-9_]+)\s*\(\s*\)', ln)
            if m:
                back = '\n'.join(lines[max(0, i - 5):i])
                if '#[kani::proof' in back.split('\n}\n')[-1] and not ln.startswith('        '):
                    names.append(m.group(1))
        for m in _per_style_re.finditer(text):
            names += [m.group(2), m.group(3), m.group(4)]
        for m in _target_re.finditer(text):
            names.append(m.group(1))
        for m in _shape_re.finditer(text):
            names += [m.group(1), m.group(2)]
        for m in _pair2_re.finditer(text):
            names += [m.group(1), m.group(2)]
        for m in re.finditer(r'^(?:gen_\w+)!\(\s*(\w+)\s*[,)]', text, re.M):
            names.append(m.group(1))
        seen = set()
        for n in names:
            if n in seen:
                continue
            seen.add(n)
            info = FILES[fn]
            d = dict(short=n, full=info['module'] + '::' + n, file=fn, unit=info['unit'],
                     src=info['src'], functions=info['functions'], kind='law', tier='quick',
                     timeout=QUICK_TIMEOUT, bounded=BOUNDED_FILES.get(fn))
            if n.startswith('cover_'):
                d['kind'] = 'cover'
                d['props'] = []
            elif n.startswith('canary_'):
                d['kind'] = 'canary'
                d['props'] = []
            else:
                d['props'] = ['C' + n[1:3]]
                if n.endswith('_contract') or '_contract_' in n:
                    d['kind'] = 'contract'
            for rx, ov in OVERRIDES:
                if re.search(rx, n):
                    d.update(ov)
            for rx, extra in EXTRA_PROPS:
                if re.search(rx, n):
                    d['props'] = d['props'] + [p for p in extra if p not in d['props']]
            d['complete'] = d['bounded'] is None
            out.append(d)
    return out


if __name__ == '__main__':
    import json
    import sys
    hs = discover()
    by = {}
    for h in hs:
        for p in h['props'] or ['-']:
            by.setdefault(p, []).append(h['short'])
    for p in sorted(by):
        print(p, len(by[p]))
    if len(sys.argv) > 1:
        print(json.dumps([h for h in hs if sys.argv[1] in h['props']], indent=1))
