#!/bin/sh
# dev helper: refresh the scratch copy used for manual kani runs
W=/var/tmp/rsass-verif/work
mkdir -p $W
rsync -a --delete --exclude target --exclude .git --exclude /kv /repo/ $W/
cat >> $W/Cargo.toml <<'EOT'

[patch.crates-io]
arc-swap = { path = "/verif/shims/arc-swap" }
EOT
