#!/usr/bin/env python3
"""Regenerate /verif/MANIFEST.json (kept valid at all times)."""
import json
import os
import subprocess

ROOT = os.path.dirname(os.path.dirname(os.path.abspath(__file__)))

CLAIMS = {
    'C01': dict(cat='proof',
                text='Function-level panic-freedom contracts for the panic sites the property names (get_indent and its callers in CssBuf, long_indent, ValueRange::new/next, Color::cmp/cmp_chan, Number::into_integer, UnitSet exponent arithmetic, index_of, CssBuf::end_block, the framing tail of into_buffer, the digit accumulation of string escapes in CssString::unquote): every counted obligation is discharged for ALL arguments of the real function by Kani/CBMC or, unbounded, by Verus (long_indent for every length, CssBuf block bookkeeping for every buffer, into_buffer tail for every buffer); not a proof about whole compilations.',
                note='Covers only the listed leaf functions; parser, evaluator recursion depth, resolve_ref, Display/fmt and error rendering (SourcePos::show) are unverified. Bounded stand-ins (CssBuf buffers <= 4 bytes in the Kani twin, UnitSet <= 2 entries) are listed in evidence and not counted as proved.',
                tech='Kani function contracts / proof harnesses on the real crate + Verus on extracted text',
                ref='DESIGN.md §5 C01, §11'),
    'C07': dict(cat='proof',
                text='The final-newline and charset/BOM clauses are the postcondition of the tail of CssData::into_buffer, verified by Verus for every byte vector (unbounded) on text extracted from /repo each run (Kani twin on buffers <= 4 bytes gives counterexamples); the brace bookkeeping of CssBuf::new/start_block/end_block/add_one/add_str/pop_nl/opt_nl is verified by Verus for every buffer and indentation, with the lemma layer L-braces (start_block +1, end_block -1 on the brace balance; indent == 2 * balance holds for the buffer CssBuf::new returns and is invariant) over those contracts; do_indent/get_indent/long_indent by Kani contracts and Verus.',
                note='Item writers other than Property::write (what bytes reach the buffer) and braces inside values/strings are not covered; "no line break in compressed output" is checked for Property::write only (complete body extracted unchanged, real CssBuf, value rendering replaced by a stand-in text with a line break: bounded). Verus type stubs, vstd Vec/str specs and one assumed byte-string literal are trusted and listed.',
                tech='Verus on extracted into_buffer tail and CssBuf + lemma layer; Kani harnesses on CssBuf and get_indent',
                ref='DESIGN.md §5 C07, §11'),
    'C11': dict(cat='proof',
                text='Unit::scale_to is checked against the CSS Values ratio table for every ordered pair of the 28 named units (complete, one named assertion per pair), and lifted through UnitSet::scale_to_unit and Numeric::partial_cmp/as_unit (representative unit pairs, probe magnitudes: bounded), and through the numeric arms of + and - of Operator::eval (extracted ranges; 11 representative unit pairs, all left magnitudes up to 1e9: bounded); UnitSet Mul/Div exponent algebra bounded to 2 entries; the single-unit shortcut of UnitSet::scale_to is taken exactly when the target is one unit with exponent 1 (extracted head of the function).',
                note="The compound-unit branch of UnitSet::scale_to is checked against stand-ins for Div / dimension() / powi (complete body extracted unchanged: which operand is divided by which, dimension mismatch gives None; bounded) — the real Div for &UnitSet, dimension() and f64::powi are not. Known findings: em/ex/ch, vmin/vmax, %/fr are convertible in rsass (10 named pairs). simplify()'s scale factor, math.div and Operator::eval as a whole (thorough-tier attempts only) are not covered.",
                tech='Kani proof harnesses, exhaustive over unit pairs, oracle = CSS ratio table; K-snippets of Operator::eval arms',
                ref='DESIGN.md §5 C11, §11'),
    'C12': dict(cat='proof',
                text='Symmetry of ==, antisymmetry of partial_cmp and reflexivity except NaN are discharged for ALL f64 payloads on Number, Numeric (same unit / unitless, incl. trichotomy), cmp_chan, Rgba; reflexivity and NaN-totality for Hsla-origin Color; == of two rgb colors agrees with cmp (tolerance of conversion rounding included; all f64); hwb == hsl symmetric on two concrete probe pairs; css::Value::eq symmetry on one representative per constructor (bounded).',
                note='Strings with different quote kinds (CssString::unquote) and nested lists/maps are out of reach; cross-unit symmetry only on probe magnitudes. Number trichotomy, Hsla cmp antisymmetry, color==color through css::Value and the comparison arms of Operator::eval exceed the quick budget: thorough-tier attempts, never counted as proved.',
                tech='Kani proof harnesses over full-domain symbolic f64',
                ref='DESIGN.md §5 C12'),
    'C13': dict(cat='proof',
                text='OrderMap::get/len/is_empty/new/singleton/get_item/set_item are verified by Verus for maps of ANY size and any key type whose == has a spec: get returns the value of the first entry whose key is == to the argument, None exactly when no key is == (unbounded, on text extracted from /repo each run). insert/get_mut/remove/contains_key and the order-insensitive == are checked by Kani against an association-list view keyed by a non-trivial == for maps of at most 3 entries (bounded), and at the css::Value instantiation (1in / 96px are the same key; a null value is present). The duplicate-key check of map literals is checked on the range extracted from the evaluator (bounded: two-entry literals).',
                note='find_value and the closures of map.get / map.has-key (extracted unchanged, value type instantiated at atoms + nested maps behind references) are checked for one-key lookups on one concrete map, including a key whose value is null (bounded); lookups whose further keys come as a rest-argument list exceed 11 minutes (thorough-tier attempts). map.merge/set/remove/deep-merge/keys/values are not covered (do_merge: attempt only). Bounded stand-ins are listed in evidence and not counted as proved.',
                tech='Verus on extracted OrderMap read side + Kani bounded proof harnesses + K-snippet of the map-literal arm',
                ref='DESIGN.md §5 C13, §11'),
    'C14': dict(cat='other',
                text='css::Value::is_true (false exactly for false/null), the `not` arm of the evaluator and the and/or branches of sass::BinOp::eval and Operator::eval — the latter three as statement ranges extracted from /repo each run, with the recursive operand evaluation replaced by a probe that records calls — for one representative payload per value constructor without nested values (bounded): value selection, right operand evaluated exactly when needed, left exactly once; the inline if() function yields its second argument exactly when the condition is truthy and evaluates only the argument it yields.',
                note='Known findings: `not x` is not evaluated for lists, maps, strings, colors, !important and unicode ranges (7 listed obligations). Nested values (Paren, lists of values) and the parser-level handling of `not` are not covered.',
                tech='Kani proof harnesses per value constructor; K-snippets of evaluator ranges',
                ref='DESIGN.md §5 C14, §11'),
    'C17': dict(cat='proof',
                text='@for: ValueRange::new (direction, exclusive end, no overflow; Kani, all i64) and the step contract of Iterator::next plus the induction lemma "yields a, a±1, … through/to b, then None forever" (Verus, unbounded, on text extracted from /repo each run); the unit conversion of the end value in SrcRange::evaluate on its extracted range (Kani, seven concrete unit cases: bounded).',
                note='@if/@each/@while and define_multi are evaluator code: not covered. Numeric::new/Value abstracted as uninterpreted constructors in Verus.',
                tech='Verus on extracted ValueRange + Kani harnesses + K-snippet of SrcRange::evaluate',
                ref='DESIGN.md §5 C17, §11'),
    'C16': dict(cat='proof',
                text='The flag logic of variable assignment — Scope::set_variable after the `module.name` case, extracted from /repo each run with the scope state replaced by a probe: `!default` assigns only when the variable is undefined or null, `!global` always writes the global, otherwise the write goes to the current scope, and there is exactly one write or none — for all 12 combinations of (existing value, !default, !global): loop-free, complete.',
                note='Known finding: an assignment without flags never updates a variable of an enclosing local scope (`a { $x: 1; b { $x: 2; } c: $x }` gives c: 1). Added at the end of session 3 (bounded, stand-in types, see DESIGN 11.8): the @media / at-rule / @for / @while / @each arms of handle_item open exactly one sub scope of the enclosing scope (per iteration for @for), define the loop variable and run the body in it; @each saves and restores only the loop scope\'s OWN entries (complete bodies of store_local_values / restore_local_values / get_local_or_none on a four-slot table). The real scope chain (Mutex<BTreeMap>, Scope::sub, define_global\'s walk to the root), style rules, mixin / function parameters, top-level flow control and module variables are not covered.',
                tech='Kani proof harnesses on K-snippets (ranges of Scope::set_variable and handle_item, bodies of store/restore_local_values, extracted each run; recording stand-ins for the scope)',
                ref='DESIGN.md §11'),
    'C36': dict(cat='proof',
                text='Which loud comments reach the output: the Item::Comment arm of output::transform::handle_item, extracted from /repo each run with the scope format and the destination replaced by probes — expanded style emits every loud comment exactly once, compressed style keeps exactly those starting with `/*!` (loop-free, both styles, both kinds: complete).',
                note='That silent comments never reach the evaluator (parser), the evaluation of interpolation inside comments and their order relative to other items are not covered. The module-loading closures of the @use / @forward arms are checked to give the loaded module the output format of the loading scope (recording stand-ins, bounded). Comment::write is run on two concrete comments in expanded style (bounded); its compressed-style harnesses exceed 15 minutes (str::lines / str::replace): thorough-tier attempts, never counted.',
                tech='Kani proof harnesses on a K-snippet (range of handle_item extracted each run)',
                ref='DESIGN.md §11'),
    'C18': dict(cat='other',
                text='The argument binding of user-defined functions and mixins: the body of FormalArgs::eval, extracted from /repo each run, with the sub-scope replaced by a binder that records every definition in order and the evaluation of a default replaced by a recorded call; css::CallArgs is instantiated at a cheap value type, the bodies of its methods take_positional / only_named / check_no_named / len are extracted as well, OrderMap is the real generic one. Checked on seven call shapes: positional by position, then named by name, then defaults left to right (a default is evaluated only when needed, after the parameters before it are bound), too many / unknown / missing arguments are errors, extras go to the rest parameter; `-` and `_` are equivalent in names (bounded).',
                note='Evaluation of the argument expressions, the callee scope itself (defaults "in the callee scope", definition-site vs call-site scoping), @return, @content / using, meta.keywords and duplicated named arguments (rejected by the parser) are not covered. Bounded: nothing counted as proved.',
                tech='Kani proof harnesses on K-snippets (FormalArgs::eval and CallArgs method bodies extracted each run, instantiated at a cheap value type)',
                ref='DESIGN.md §11'),
    'C22': dict(cat='other',
                text='Opt::collect_pos / collect_neg — the fold every no_placeholder uses, including the :not inversion — are verified by Verus against the C22 statement for sequences of ANY length (unbounded, bodies extracted from /repo each run; listed rewrite: the `impl Iterator` parameter is a Vec), Opt::map against the closure's own specification, and all three again by Kani for sequences of at most 4 items (bounded); CompoundSelector::no_placeholder (a compound with a placeholder is removed, one without is kept unchanged) and Pseudo::no_placeholder on a pseudo-class without selector argument: bounded model checking of the real code. The recursive cases (placeholder in an ancestor, in a selector list, inside :is() / :not() / ::slotted()) exist as harnesses on the real Selector / SelectorSet / Pseudo::no_placeholder but exceed 15 minutes and 5 GB each: thorough-tier attempts, never counted.',
                note='Added at the end of session 3: the complete bodies of SelectorSet / Selector / CompoundSelector / Pseudo ::no_placeholder, extracted unchanged, each checked against a stand-in for the type one level down that returns every Opt case (removed / matches anything / kept, transformed) — order kept, :not and only :not inverts, every pseudo name with a selector argument counts, pseudo-elements included (bounded: three selectors / two pseudos per level). The induction composing the levels on real nested selectors is not machine-checked; on the real recursive types the harnesses are attempts. How Rule::write uses the result (the `*` fallback) and the selector parser/printer are not covered. Bounded: nothing counted as proved.',
                tech='Kani bounded proof harnesses on the real fold; the four no_placeholder bodies extracted each run and checked level by level against stand-in callees',
                ref='DESIGN.md §5 C22, §11'),
    'C26': dict(cat='proof',
                text='The index arithmetic of string.slice and string.insert — how a 1-based, possibly negative Sass index becomes a code-point offset, and how many code points are taken — on the statement ranges extracted from the closures in sass/functions/string.rs each run: for EVERY i64 index pair and EVERY string length the selected positions are exactly i through j (empty when the range is empty), and insert puts the text before position i clamped to the string (loop-free, complete).',
                note='Beyond the index arithmetic, the complete bodies of slice / insert / index / length / to-upper-case / to-lower-case are run on concrete strings only (code points vs bytes, quotedness, first match, ASCII-only case change): bounded. split, unique-id, quote / unquote are not covered.',
                tech='Kani proof harnesses on K-snippets (ranges of the closures extracted each run)',
                ref='DESIGN.md §11'),
    'C28': dict(cat='proof',
                text="index_of (1..n and -n..-1 normalisation, result < len) for all f64 and all lengths up to 2^40, and Number::into_integer (complete); the separator choice of list.join and list.append for all 4x4(x4) combinations (complete), join's bracket choice, list.separator, list.index (first == position) and zip's truncation on ranges extracted from the closures (bounded where lists are involved).",
                note='nth/set-nth bodies beyond index_of, get_list (thorough-tier attempt), maps/arglists as lists are not covered; error text is stubbed (error presence is checked).',
                tech='Kani proof harnesses; K-snippets of the list function closures',
                ref='DESIGN.md §5 C28, §11'),
    'C29': dict(cat='proof',
                text='The rounding primitives behind math.ceil / floor / round / abs (Number::ceil, floor, round, abs, trunc) against their mathematical specification for ALL finite doubles (complete); the closures of math.ceil / floor / percentage and sass_round keep the unit and apply the primitive (ranges extracted each run, all finite doubles); find_extreme, the fold behind math.min / max, returns one of its arguments chosen after unit conversion (also when a unitless argument ties with one that has a unit) and rejects incompatible units (concrete argument lists: bounded).',
                note='math.clamp (complete closure) and the unitless argument check of pow / sqrt / log / exp (math::unitless + check::unitless, complete bodies) are discharged for ALL doubles at a stand-in number type (a double with a unit tag; error text dropped): the result is $min / $max / $number as specified, wrong-order bounds included; exactly numbers without unit (% and fr are units) are accepted. On the real Numeric both exist only as thorough-tier attempts (> 15 minutes: BTreeMap in is_compatible, core::fmt on the error path). The VALUES of pow, sqrt, log, exp and the trigonometric functions (over-approximated by CBMC), math.div and the CSS-fallback forms (math/css.rs) are not covered.',
                tech='Kani proof harnesses over all finite f64 + K-snippets of the math function closures',
                ref='DESIGN.md §11'),
    'C31': dict(cat='proof',
                text='Channel-range postconditions of Rgba::new/from_rgb/from_rgba/set_alpha, cap, Hsla::new, Hwba::new, Color::set_alpha and of the rgb<->hsl<->hwb conversions, max_min_largest, same-channels => == (all f64, complete); hsl -> hwb on two concrete probe colors (the symbolic version is a thorough-tier attempt). deg_mod: the contract its call sites are checked against is proved for the real body (text extracted each run) for all doubles, modulo the assumed IEEE contract of `f64 % 360.0`.',
                note='Known finding: hsl() passes an out-of-range lightness through (lightness(hsl(0, 50%, 120%)) = 120%); the repair breaks 11 baseline spec tests. f64 % is not modelled by CBMC: its IEEE contract is an unchecked assumption (listed in evidence). The exact rgb->hsl->rgb round trip is attempted in the thorough tier only and reported as not proved on timeout. NaN inputs are excluded from range obligations. The Sass-level constructors (rgb(), hsl(), hwb() argument parsing) are not covered.',
                tech='Kani function contracts + proof harnesses over all f64; K-snippet of deg_mod',
                ref='DESIGN.md §5 C31, §11'),
    'C32': dict(cat='proof',
                text='Laws of the Color methods the Sass functions call: invert∘invert = id (rgb, hsl), invert weight 0, rotate_hue(360) = id, rotate_hue(d) then (-d) for |d| <= 360, alpha untouched, set_alpha clamping; and the channel arithmetic of lighten, darken, saturate, desaturate, grayscale and complement on ranges extracted from the closures each run: the channel moves by exactly the amount, clamped to 0..100%, other channels unchanged, darken undoes lighten when nothing was clamped; opacify / transparentize move alpha by exactly the amount, clamped, and undo each other; mix: weight 100% / 0% give the first / second color (all f64 in range, complete); mix(c, c, 50%) is c (other weights: thorough-tier attempts).',
                note='adjust, scale, change and invert closures are not covered. Hue laws rest on the assumed (unchecked) contract of deg_mod, which is exact only on [-360, 720].',
                tech='Kani proof harnesses over all f64; K-snippets of the color function closures',
                ref='DESIGN.md §5 C32, §11'),
}

NA = {
    'C02': 'import-loop detection is BTreeMap<String,_> state in Context driven by the evaluator: Kani cannot compile the evaluator (ICE) nor BTreeMap at useful sizes; Verus has no BTreeMap/closure support',
    'C03': 'module cache is CssData.modules (BTreeMap) + FnOnce init closure + evaluator recursion: out of reach of both verifiers',
    'C04': 'candidate order is an array of format! closures iterated with iterator adapters; format! costs minutes per call in CBMC, Verus rejects the adapters; the file-system half is external',
    'C05': 'whole-history multi-thread property over process-wide statics: Kani has no threads, Verus would need the code rewritten onto its permission types (a model)',
    'C06': 'unique-id/random are closures inside the LazyLock function table (unreachable for Kani), uniqueness is a concurrency property, fastrand is external',
    'C08': 'relation between two whole outputs through core::fmt; only ListSeparator::sep is reachable, too thin to claim',
    'C09': 'needs the nom CSS parser and the printer (fmt): neither verifier can process nom combinators',
    'C10': 'Display for Formatted<Number> is f64 digit extraction through fmt and log10: Kani cannot run fmt and over-approximates log10; Verus has no f64 arithmetic (one sub-obligation is proved under C01)',
    'C15': 'operator precedence is the layering of nom parser functions',
    'C19': 'recursive Box/Vec/String selector algebra written with flat_map/retain/closures, and the selector parser: outside Verus\' subset, only trivially small instances in Kani',
    'C20': 'tree transformation through &mut dyn CssDestination objects whose Drop impls have the side effects in question; driven by the evaluator',
    'C21': 'same as C20: bubbling is implemented in Drop impls of CssDestination objects driven by the evaluator',
    'C23': 'selector algebra (see C19)',
    'C24': 'selector algebra (see C19)',
    'C25': 'selector algebra and selector parser (see C19)',
    'C27': 'escaping is Peekable<Chars> loops and core::fmt: CssString::unquote on a 3-byte string with one symbolic digit did not finish in 200 s; Verus has no str/char iteration',
    'C30': 'calc()/min()/max()/clamp() simplification lives in closures and recursive Value rewriting in sass/functions/math/css.rs (built through the LazyLock function table): out of reach of both verifiers',
    'C33': 'color text is produced by write! (unreachable) and a LazyLock BTreeMap of names; the reachable half (try_bytes) is proved under C31',
    'C34': 'a relation between two entries of the LazyLock function tables (global and module forms), whose construction runs the parser: Kani cannot compile the tables, Verus cannot process them',
    'C35': 'parser/evaluator property',
    'C37': 'module-graph property',
    'C38': 'each entry point\'s body is the expression the statement names; there is no obligation for a verifier and running transform is out of reach',
    'C39': 'error propagation through generic Loader, ? in the evaluator and format!-built names; a nondeterministic-loader harness needs Context (Kani ICE) and format!',
    'C40': 'process-level behaviour of the CLI binary',
}


def main():
    hook = subprocess.run(['git', '-C', '/repo', 'log', '--format=%H %s'], stdout=subprocess.PIPE, text=True).stdout
    hook_commits = [ln.split()[0] for ln in hook.splitlines() if ' verif hooks' in ln]
    checks = []
    for pid in sorted(CLAIMS):
        c = CLAIMS[pid]
        checks.append({
            'property_id': pid,
            'quick_cmd': './check %s' % pid,
            'thorough_cmd': './check %s --tier thorough' % pid,
            'evidence_file': '/verif/evidence/%s.json' % pid,
            'replay_cmd_template': './check %s --replay {path}' % pid,
            'engine': 'contracts',
            'level_claimed': {'category': c['cat'], 'text': c['text'], 'design_ref': c['ref']},
            'level_note': c['note'],
            'technique': c['tech'],
        })
    m = {
        'version': 1,
        'setup_cmd': 'python3 tools/setup.py',
        'hooks': {
            'guard': 'cfg(kani)',
            'enable': 'cargo kani sets --cfg kani; ./check builds a scratch copy of /repo\'s working tree with it (arc-swap patched to /verif/shims/arc-swap in the copy only)',
            'baseline_off_cmd': 'cd /repo && cargo test --workspace --no-fail-fast --offline',
            'source_commits': hook_commits,
            'add_only': True,
        },
        'engines': [{
            'name': 'contracts',
            'path': '/verif/check',
            'serves_properties': sorted(CLAIMS),
            'kind_free_text': 'contract-based deductive verification of the real code: Kani 0.68 function contracts / proof harnesses on the real crate (cfg(kani) hooks), Verus 0.2026.09.13 on functions extracted verbatim from /repo on every run',
        }],
        'checks': checks,
        'not_applicable': [{'property_id': k, 'reason': v} for k, v in sorted(NA.items())],
        'notes': 'See DESIGN.md (section 10 = as built). exit 2 = undecided (build/tool error, lost anchor, failed vacuity guard, nothing discharged), never reported as a violation; a single harness that hits the time/memory limit is printed as NOT-DECIDED, excluded from the obligation counts and does not change the exit code. known_findings.json lists recorded and repaired defects.',
    }
    json.dump(m, open(os.path.join(ROOT, 'MANIFEST.json'), 'w'), indent=1)
    print('MANIFEST.json written: %d checks, %d not applicable' % (len(checks), len(NA)))


if __name__ == '__main__':
    main()
