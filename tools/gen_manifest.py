#!/usr/bin/env python3
"""Regenerate /verif/MANIFEST.json (kept valid at all times)."""
import json
import os
import subprocess

ROOT = os.path.dirname(os.path.dirname(os.path.abspath(__file__)))

CLAIMS = {
    'C01': dict(cat='proof',
                text='Function-level panic-freedom contracts for the panic sites the property names (get_indent and its callers in CssBuf, ValueRange::new/next, Color::cmp/cmp_chan, Number::into_integer, UnitSet exponent arithmetic, index_of): every obligation is discharged for ALL arguments of the real function by Kani/CBMC or Verus; not a proof about whole compilations.',
                note='Covers only the listed leaf functions; parser, evaluator recursion depth, resolve_ref, Display/fmt and error rendering are unverified. Bounded stand-ins (CssBuf buffers <= 4 bytes, UnitSet <= 2 entries, long_indent lengths) are listed in evidence and not counted as proved.',
                tech='Kani function contracts / proof harnesses on the real crate + Verus on extracted text',
                ref='DESIGN.md §5 C01'),
    'C07': dict(cat='proof',
                text='The final-newline and charset/BOM clauses are the postcondition of the tail of CssData::into_buffer, verified by Verus for every byte vector (unbounded) on text extracted verbatim from /repo each run; brace bookkeeping of CssBuf::start_block/end_block/add_one/pop_nl/opt_nl is discharged by Kani (bounded buffer prefix).',
                note='Item writers (what bytes reach the buffer), braces inside values/strings, "no line break in compressed output" are not covered. Verus type stubs and vstd Vec specs trusted.',
                tech='Verus on extracted into_buffer tail + Kani harnesses on CssBuf',
                ref='DESIGN.md §5 C07'),
    'C11': dict(cat='proof',
                text='Unit::scale_to is checked against the CSS Values ratio table for every ordered pair of the 28 named units (complete, one named assertion per pair), and lifted through UnitSet::scale_to_unit and Numeric::partial_cmp/as_unit (representative unit pairs, probe magnitudes: bounded); UnitSet Mul/Div exponent algebra bounded to 2 entries. The +/- arms of Operator::eval are thorough-tier attempts only (CBMC has never finished them) and are not counted.',
                note='Known findings: em/ex/ch, vmin/vmax, %/fr are convertible in rsass (10 named pairs). simplify()\'s scale factor (powi), math.div and Operator::eval are not covered.',
                tech='Kani proof harnesses, exhaustive over unit pairs, oracle = CSS ratio table',
                ref='DESIGN.md §5 C11'),
    'C12': dict(cat='proof',
                text='Symmetry of ==, antisymmetry of partial_cmp and reflexivity except NaN are discharged for ALL f64 payloads on Number, Numeric (same unit / unitless, incl. trichotomy), cmp_chan, Rgba; reflexivity and NaN-totality for Hsla-origin Color; css::Value::eq symmetry on one representative per constructor (bounded).',
                note='Strings with different quote kinds (CssString::unquote) and nested lists/maps are out of reach; cross-unit symmetry only on probe magnitudes. Number trichotomy, Hsla cmp antisymmetry, color==color through css::Value and the comparison arms of Operator::eval exceed the quick budget: thorough-tier attempts, never counted as proved.',
                tech='Kani proof harnesses over full-domain symbolic f64',
                ref='DESIGN.md §5 C12'),
    'C13': dict(cat='other',
                text='OrderMap insert/get/get_mut/remove/contains_key and == are checked against an association-list view keyed by a non-trivial == (whole-view postconditions incl. "other entries unchanged"), for maps of at most 3 entries (bounded model checking of the real generic code; remove and == are instantiated per concrete size / key permutation).',
                note='map.* Sass functions are closures in the function table (unreachable); duplicate-key error is in the evaluator.',
                tech='Kani bounded proof harnesses + Verus on extracted OrderMap::get',
                ref='DESIGN.md §5 C13'),
    'C14': dict(cat='other',
                text='css::Value::is_true (false exactly for false/null; 0, NaN, empty string/list/map truthy) for one representative payload per value constructor (bounded). The And/Or value selection of Operator::eval is a thorough-tier attempt only (CBMC has never finished it) and is not counted.',
                note='The `not` arm and short-circuit evaluation live in the evaluator, which Kani cannot compile: NOT covered (the known `not null` defect is outside this check).',
                tech='Kani proof harnesses per value constructor',
                ref='DESIGN.md §5 C14'),
    'C17': dict(cat='proof',
                text='@for: ValueRange::new (direction, exclusive end, no overflow; Kani, all i64) and the step contract of Iterator::next plus the induction lemma "yields a, a±1, … through/to b, then None forever" (Verus, unbounded, on text extracted from /repo each run).',
                note='Unit conversion in SrcRange::evaluate, @if/@each/@while and define_multi are evaluator code: not covered. Numeric::new/Value abstracted as uninterpreted constructors in Verus.',
                tech='Verus on extracted ValueRange + Kani harnesses',
                ref='DESIGN.md §5 C17'),
    'C22': dict(cat='other',
                text='Opt::collect_pos / collect_neg / map — the fold every no_placeholder uses, including the :not inversion — against the C22 statement for sequences of at most 4 items (bounded model checking of the real generic code).',
                note='The selector structures that call the fold (recursive Box/Vec/String code with iterator closures) are not covered.',
                tech='Kani bounded proof harnesses',
                ref='DESIGN.md §5 C22'),
    'C28': dict(cat='proof',
                text='index_of (1..n and -n..-1 normalisation, result < len) for all f64 and all lengths up to 2^40, and Number::into_integer (complete); get_list shape is a thorough-tier attempt only (exceeds 300 s) and is not counted.',
                note='nth/set-nth/join/append/zip/index are closures in the function table: unreachable; error text is stubbed (error presence is checked).',
                tech='Kani proof harness with fmt::format stubbed',
                ref='DESIGN.md §5 C28'),
    'C31': dict(cat='proof',
                text='Channel-range postconditions of Rgba::new/from_rgb/from_rgba/set_alpha, cap, Hsla::new, Hwba::new, Color::set_alpha and of the rgb<->hsl<->hwb conversions, max_min_largest, same-channels => == (all f64, complete). deg_mod itself is NOT verified: its callers are checked against an assumed contract of it.',
                note='f64 % is not modelled by CBMC and Verus has no float arithmetic: deg_mod\'s contract is an unchecked assumption (listed in evidence); exact rgb->hsl->rgb round trip is attempted in the thorough tier only and reported as not proved on timeout. NaN inputs are excluded from range obligations.',
                tech='Kani function contracts + proof harnesses over all f64',
                ref='DESIGN.md §5 C31'),
    'C32': dict(cat='proof',
                text='Laws of the Color methods the Sass functions call: invert∘invert = id (rgb, hsl), invert weight 0, rotate_hue(360) = id, rotate_hue(d) then (-d) for |d| <= 360, alpha untouched, set_alpha clamping (all f64 in range).',
                note='The Sass-level functions (mix, lighten, scale, …) are closures in the function table: unreachable. Hue laws rest on the assumed (unchecked) contract of deg_mod, which is exact only on [-360, 720].',
                tech='Kani proof harnesses over all f64',
                ref='DESIGN.md §5 C32'),
}

NA = {
    'C02': 'import-loop detection is BTreeMap<String,_> state in Context driven by the evaluator: Kani cannot compile the evaluator (ICE) nor BTreeMap at useful sizes; Verus has no BTreeMap/closure support',
    'C03': 'module cache is CssData.modules (BTreeMap) + FnOnce init closure + evaluator recursion: out of reach of both verifiers',
    'C04': 'candidate order is an array of format! closures iterated with iterator adapters; format! costs minutes per call in CBMC, Verus rejects the adapters; the file-system half is external',
    'C05': 'whole-history multi-thread property over process-wide statics: Kani has no threads, Verus would need the code rewritten onto its permission types (a model)',
    'C06': 'unique-id/random are closures inside the LazyLock function table (unreachable for Kani), uniqueness is a concurrency property, fastrand is external',
    'C08': 'relation between two whole outputs through core::fmt; only ListSeparator::sep is reachable, too thin to claim',
    'C09': 'needs the nom CSS parser and the printer (fmt): neither verifier can process nom combinators',
    'C10': 'Display for Formatted<Number> is f64 digit extraction through fmt and log10: Kani cannot run fmt and over-approximates log10; Verus has no f64 arithmetic (one sub-obligation is proved under C01)',
    'C15': 'operator precedence is the layering of nom parser functions',
    'C16': 'scope chain of Mutex<BTreeMap> walked by the recursive evaluator: contract expressible, no installed back end can execute it',
    'C18': 'argument binding = FormalArgs::eval over scopes, closures and the parser (defaults are parsed at call time)',
    'C19': 'recursive Box/Vec/String selector algebra written with flat_map/retain/closures, and the selector parser: outside Verus\' subset, only trivially small instances in Kani',
    'C20': 'tree transformation through &mut dyn CssDestination objects whose Drop impls have the side effects in question; driven by the evaluator',
    'C21': 'same as C20: bubbling is implemented in Drop impls of CssDestination objects driven by the evaluator',
    'C23': 'selector algebra (see C19)',
    'C24': 'selector algebra (see C19)',
    'C25': 'selector algebra and selector parser (see C19)',
    'C26': 'index arithmetic is inline in closures passed to def!; there is no function to put a contract on and the closures are only reachable through the function table',
    'C27': 'escaping is Peekable<Chars> loops and core::fmt: CssString::unquote on a 3-byte string with one symbolic digit did not finish in 200 s; Verus has no str/char iteration',
    'C29': 'built-in functions are closures in LazyLock tables whose construction runs the parser; transcendental functions are over-approximated by CBMC',
    'C30': 'same as C29',
    'C33': 'color text is produced by write! (unreachable) and a LazyLock BTreeMap of names; the reachable half (try_bytes) is proved under C31',
    'C34': 'same as C29',
    'C35': 'parser/evaluator property',
    'C36': 'evaluator/module-graph property',
    'C37': 'module-graph property',
    'C38': 'each entry point\'s body is the expression the statement names; there is no obligation for a verifier and running transform is out of reach',
    'C39': 'error propagation through generic Loader, ? in the evaluator and format!-built names; a nondeterministic-loader harness needs Context (Kani ICE) and format!',
    'C40': 'process-level behaviour of the CLI binary',
}


def main():
    hook = subprocess.run(['git', '-C', '/repo', 'log', '--format=%H %s'], stdout=subprocess.PIPE, text=True).stdout
    hook_commits = [ln.split()[0] for ln in hook.splitlines() if ' verif hooks' in ln]
    checks = []
    for pid in sorted(CLAIMS):
        c = CLAIMS[pid]
        checks.append({
            'property_id': pid,
            'quick_cmd': './check %s' % pid,
            'thorough_cmd': './check %s --tier thorough' % pid,
            'evidence_file': '/verif/evidence/%s.json' % pid,
            'replay_cmd_template': './check %s --replay {path}' % pid,
            'engine': 'contracts',
            'level_claimed': {'category': c['cat'], 'text': c['text'], 'design_ref': c['ref']},
            'level_note': c['note'],
            'technique': c['tech'],
        })
    m = {
        'version': 1,
        'setup_cmd': 'python3 tools/setup.py',
        'hooks': {
            'guard': 'cfg(kani)',
            'enable': 'cargo kani sets --cfg kani; ./check builds a scratch copy of /repo\'s working tree with it (arc-swap patched to /verif/shims/arc-swap in the copy only)',
            'baseline_off_cmd': 'cd /repo && cargo test --workspace --no-fail-fast --offline',
            'source_commits': hook_commits,
            'add_only': True,
        },
        'engines': [{
            'name': 'contracts',
            'path': '/verif/check',
            'serves_properties': sorted(CLAIMS),
            'kind_free_text': 'contract-based deductive verification of the real code: Kani 0.68 function contracts / proof harnesses on the real crate (cfg(kani) hooks), Verus 0.2026.09.13 on functions extracted verbatim from /repo on every run',
        }],
        'checks': checks,
        'not_applicable': [{'property_id': k, 'reason': v} for k, v in sorted(NA.items())],
        'notes': 'See DESIGN.md (section 10 = as built). exit 2 = undecided (build/tool error, lost anchor, failed vacuity guard, nothing discharged), never reported as a violation; a single harness that hits the time/memory limit is printed as NOT-DECIDED, excluded from the obligation counts and does not change the exit code. known_findings.json lists recorded and repaired defects.',
    }
    json.dump(m, open(os.path.join(ROOT, 'MANIFEST.json'), 'w'), indent=1)
    print('MANIFEST.json written: %d checks, %d not applicable' % (len(checks), len(NA)))


if __name__ == '__main__':
    main()
