#!/usr/bin/env python3
"""Run registered checks against ONE seeded change kept under /verif/seeded/<name>/
(patch.diff + meta.json) or any directory holding a patch.diff.

The change is applied to a scratch copy of /repo's working tree (never to
/repo itself), `./check <id>` runs on the copy through VERIF_REPO, the copy is
removed afterwards.  Evidence of these runs is redirected away from
/verif/evidence.

usage: try_seed.py <dir-with-patch.diff> <property-id> [more ids...] [--only REGEX]
prints one JSON line per property: exit code, VIOLATION lines, failed obligations.
"""
import json
import os
import re
import shutil
import subprocess
import sys
import time

ROOT = os.path.dirname(os.path.dirname(os.path.abspath(__file__)))
SCRATCH = '/var/tmp/rsass-verif-seeded/%d/repo' % os.getpid()


def sh(cmd, **kw):
    return subprocess.run(cmd, stdout=subprocess.PIPE, stderr=subprocess.STDOUT, text=True, **kw)


def main():
    args = sys.argv[1:]
    only = None
    if '--only' in args:
        i = args.index('--only')
        only = args[i + 1]
        del args[i:i + 2]
    d, pids = args[0], args[1:]
    patch = os.path.join(d, 'patch.diff') if os.path.isdir(d) else d
    shutil.rmtree(os.path.dirname(SCRATCH), ignore_errors=True)
    os.makedirs(SCRATCH)
    sh(['rsync', '-a', '--exclude', '/target', '--exclude', '.git', '/repo/', SCRATCH + '/'])
    r = sh(['patch', '-p1', '--no-backup-if-mismatch', '-i', os.path.abspath(patch)], cwd=SCRATCH)
    if r.returncode != 0:
        print('patch does not apply:\n' + r.stdout)
        sys.exit(2)
    res = []
    for pid in pids:
        t0 = time.time()
        cmd = [os.path.join(ROOT, 'check'), pid] + (['--only', only] if only else [])
        r = sh(cmd, env=dict(os.environ, VERIF_REPO=SCRATCH, VERIF_EVIDENCE_DIR='/var/tmp/rsass-verif-seeded/evidence',
                             VERIF_REPLAY_DIR='/var/tmp/rsass-verif-seeded/replays'))
        viol = re.findall(r'^VIOLATION .*$', r.stdout, re.M)
        failed = re.findall(r'^  failed obligation: (.*)$', r.stdout, re.M)
        o = dict(seed=d, property=pid, exit=r.returncode, detected=bool(r.returncode == 1 and viol),
                 violation_lines=viol, failed_obligations=failed, wall_s=round(time.time() - t0, 1),
                 tail=r.stdout[-1500:] if r.returncode != 1 else '')
        res.append(o)
        print(json.dumps(o), flush=True)
    shutil.rmtree(os.path.dirname(SCRATCH), ignore_errors=True)
    return res


if __name__ == '__main__':
    main()
